#!/usr/bin/env python3
"""Store candidate-slip patches written by a sub-agent (worktree/ideas/N.diff + N.txt) under /verif/mutants/ideas/<prop>-<ident>/.
Each is first checked in the worktree: applies on the clean tree, library builds, the 28 ctest programs pass.
These have no demonstration program (unlike seeded/): a miss by the checks has to be judged by hand.

  store_ideas.py <property> <worktree>
"""
import json, os, re, shutil, subprocess, sys
VERIF = os.path.dirname(os.path.dirname(os.path.abspath(__file__)))
def sh(cmd, cwd):
    r = subprocess.run(cmd, shell=True, cwd=cwd, stdout=subprocess.PIPE, stderr=subprocess.STDOUT, text=True)
    return r.returncode, r.stdout
def main():
    prop, wt = sys.argv[1:3]
    idir = os.path.join(wt, "ideas")
    for f in sorted(os.listdir(idir), key=lambda x: (len(x), x)):
        if not f.endswith(".diff"): continue
        n = f[:-5]
        note = os.path.join(idir, n + ".txt")
        text = open(note).read() if os.path.exists(note) else ""
        ident = re.sub(r"[^a-z0-9-]", "", (text.strip().splitlines() or ["idea-" + n])[0].strip().lower().replace(" ", "-").replace("_", "-"))[:48] or ("idea-" + n)
        sh("git checkout -- src", wt)
        rc, out = sh("git apply ideas/%s" % f, wt)
        if rc: print("%s %s: does not apply: %s" % (prop, f, out[-200:])); continue
        rc, out = sh("cmake -G Ninja -S . -B _build -DCMAKE_BUILD_TYPE=RelWithDebInfo > /dev/null && cmake --build _build 2>&1 | tail -3 && ctest --test-dir _build -j8 --timeout 900 2>&1 | tail -5", wt)
        ok = "100% tests passed" in out
        sh("git checkout -- src", wt)
        if not ok: print("%s %s (%s): build or test-suite failed: %s" % (prop, f, ident, out[-300:].replace("\n", " | "))); continue
        name = "%s-%s" % (prop, ident)
        dst = os.path.join(VERIF, "mutants", "ideas", name)
        os.makedirs(dst, exist_ok=True)
        shutil.copy(os.path.join(idir, f), os.path.join(dst, "patch.diff"))
        open(os.path.join(dst, "note.txt"), "w").write(text)
        json.dump({"id": name, "property": prop, "checks": [prop], "origin": "candidate slip listed by a round-5 sub-agent, implemented by a round-6 sub-agent; builds and passes the 28 tests (confirmed); no demonstration program"},
                  open(os.path.join(dst, "meta.json"), "w"), indent=1)
        print("stored %s" % name)
if __name__ == "__main__":
    main()
