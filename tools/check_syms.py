#!/usr/bin/env python3
"""Fail (exit 2) if a library object references an external symbol that is neither retargeted to the
simulator nor on the allow-list of pure functions: an unmodelled call must be modelled, not run for real."""
import subprocess, sys, os
here = os.path.dirname(os.path.abspath(__file__))
allowed = set()
for l in open(os.path.join(here, "allowed_externals.txt")):
    l = l.strip()
    if l and not l.startswith("#"):
        allowed.update(l.split())
redef_new = set(l.split()[1] for f in ("redefine.syms", "redefine.T.syms") for l in open(os.path.join(here, f)) if l.strip())
redef_old = set(l.split()[0] for l in open(os.path.join(here, "redefine.syms")) if l.strip())
objs = sys.argv[1:]
out = subprocess.run(["nm", "-u"] + objs, stdout=subprocess.PIPE, text=True).stdout
defined = subprocess.run(["nm", "--defined-only"] + objs, stdout=subprocess.PIPE, text=True).stdout
defs = set(l.split()[-1] for l in defined.splitlines() if len(l.split()) >= 3)
bad = {}
cur = None
for l in out.splitlines():
    l = l.strip()
    if l.endswith(":"):
        cur = l[:-1]; continue
    p = l.split()
    if len(p) != 2 or p[0] not in ("U", "w"):
        continue
    s = p[1]
    if s in defs or s in allowed or s in redef_new:
        continue
    if s.startswith(("__tsan_", "__asan_", "__ubsan_", "__sanitizer_")):
        continue
    if s in redef_old:
        bad.setdefault(s + " (retargeting failed)", []).append(cur)
    else:
        bad.setdefault(s, []).append(cur)
if bad:
    for s, where in sorted(bad.items()):
        sys.stderr.write("unmodelled external symbol: %s referenced by %s\n" % (s, ", ".join(sorted(set(os.path.basename(w) for w in where)))))
    sys.exit(2)
