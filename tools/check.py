#!/usr/bin/env python3
"""Driver for the plibsys deterministic-simulation checks.

  check.py Cxx --tier quick|thorough     run the check of one property (exit 0 / 1 / 2)
  check.py --replay <file>               re-execute a replay file (exit 1 if the violation reproduces)
  check.py --selftest                    smoke test of every built harness (part of setup)

Exit codes: 0 property held on everything explored (known findings printed), 1 violation (after the
determinism gate), 2 infrastructure problem (build failure, non-deterministic replay, ...): no VIOLATION line.
"""
import argparse, json, os, struct, subprocess, sys, time, shutil

VERIF = os.path.dirname(os.path.dirname(os.path.abspath(__file__)))
sys.path.insert(0, os.path.join(VERIF, "tools"))
from props import PROPS  # noqa: E402

BUILD = os.environ.get("VERIF_BUILD", os.path.join(VERIF, "build"))   # scratch builds of mutated trees: VERIF_BUILD + PLIBSYS_SRC
OUT = os.environ.get("VERIF_OUT", VERIF)                               # where evidence/ and replays/ go (default: /verif)
BIN = os.path.join(BUILD, "bin")
RUNDIR = os.path.join(BUILD, "run")
REPLAYS = os.path.join(OUT, "replays")
EVIDENCE = os.path.join(OUT, "evidence")
KNOWN = os.path.join(VERIF, "known_findings.txt")
NWORKERS = int(os.environ.get("VERIF_WORKERS", "16"))


def log(msg):
    sys.stdout.write(msg + "\n")
    sys.stdout.flush()


def build(variants):
    targets = [os.path.join(BUILD, "bin", v) for v in variants]
    t0 = time.time()
    r = subprocess.run(["make", "-C", VERIF, "-j16", "BUILD=" + BUILD] + targets, stdout=subprocess.PIPE, stderr=subprocess.STDOUT, text=True)
    if r.returncode != 0:
        sys.stderr.write(r.stdout[-6000:])
        sys.stderr.write("\ncheck.py: build failed (infrastructure, exit 2)\n")
        sys.exit(2)
    return time.time() - t0


def load_known():
    findings, fixed = [], []
    if os.path.exists(KNOWN):
        for line in open(KNOWN):
            line = line.strip()
            if not line or line.startswith("#"):
                continue
            if line.startswith("finding:"):
                body = line[len("finding:"):].strip()
                head, _, text = body.partition("::")
                kv = {}
                for tok in head.split():
                    if "=" in tok:
                        k, v = tok.split("=", 1)
                        kv[k] = v
                findings.append({"property": kv.get("property"), "class": kv.get("class"), "key": kv.get("key", "").replace("%20", " "), "text": text.strip()})
            elif line.startswith("fixed:"):
                fixed.append(line)
    return findings, fixed


def match_known(findings, prop, cls, key):
    for f in findings:
        if f["property"] == prop and f["class"] == cls and f["key"] == key:
            return f
    return None


class Worker:
    def __init__(self, variant, harness, seed, start, stride, tbudget, tier, wid, samples):
        self.variant, self.harness, self.seed, self.start, self.stride = variant, harness, seed, start, stride
        self.tier, self.wid, self.samples = tier, wid, samples
        self.deadline = time.time() + tbudget
        self.progress = os.path.join(RUNDIR, "%s.%s.w%d.progress" % (harness, variant, wid))
        self.hashes = os.path.join(RUNDIR, "%s.%s.w%d.hashes" % (harness, variant, wid))
        self.proc = None
        self.lines = []
        self.launch()

    def launch(self):
        remaining = self.deadline - time.time()
        if remaining <= 0.05:
            self.proc = None
            return
        cmd = [os.path.join(BIN, self.variant), "run", "--harness", self.harness, "--seed", str(self.seed), "--start", str(self.start),
               "--stride", str(self.stride), "--time", "%.2f" % remaining, "--tier", str(self.tier), "--progress", self.progress,
               "--hashes", self.hashes, "--samples", str(self.samples)]
        self.samples = 0
        self.proc = subprocess.Popen(cmd, stdout=subprocess.PIPE, stderr=subprocess.PIPE, text=True)

    def read_progress(self):
        try:
            with open(self.progress, "rb") as f:
                d = f.read(16)
            idx, busy = struct.unpack("<QQ", d)
            return idx, busy
        except Exception:
            return None, 0


def run_variant(prop, cfg, variant, seed, tier, tbudget, findings, state):
    """Run all workers of one variant for tbudget seconds. Updates state (summaries, violations, known)."""
    harness = cfg["harness"]
    workers = [Worker(variant, harness, seed, w, NWORKERS, tbudget, tier, w, 3 if w == 0 else 0) for w in range(NWORKERS)]
    pending = [w for w in workers if w.proc]
    while pending:
        for w in list(pending):
            try:
                out, err = w.proc.communicate(timeout=0.05)
            except subprocess.TimeoutExpired:
                # real-time watchdog
                if time.time() > w.deadline + 60:
                    w.proc.kill()
                    out, err = w.proc.communicate()
                    state["infra"].append("worker %d of %s stuck beyond its deadline" % (w.wid, variant))
                    pending.remove(w)
                continue
            pending.remove(w)
            rc = w.proc.returncode
            event = None
            for line in out.splitlines():
                try:
                    j = json.loads(line)
                except Exception:
                    continue
                t = j.get("type")
                if t == "summary":
                    state["summaries"].append(j)
                elif t == "sample":
                    if len(state["samples"]) < 4:
                        state["samples"].append({k: j[k] for k in ("variant", "index", "seed", "workload", "steps", "switches", "status") if k in j})
                elif t == "event":
                    event = j
                elif t == "nondeterminism":
                    state["infra"].append("non-deterministic re-execution: %s" % line)
            if rc == 0:
                continue
            if rc == 2:
                state["infra"].append("worker exit 2 (%s): %s" % (variant, (err or "")[-500:]))
                continue
            # rc == 3 (run did not end cleanly) or abnormal death: find the run index
            idx = None
            if event is not None:
                idx = event["index"]
            else:
                idx, busy = w.read_progress()
                if idx is None or not busy:
                    state["infra"].append("worker of %s died (rc=%s) outside a run: %s" % (variant, rc, (err or "")[-800:]))
                    continue
            handled = handle_bad_run(prop, cfg, variant, seed, tier, idx, event, findings, state, err)
            # restart after the bad index unless enough has been found
            if handled and len(state["violations"]) < 3 and not state["infra"]:
                w.start = idx + w.stride
                w.launch()
                if w.proc:
                    pending.append(w)
    # union of order hashes
    for w in workers:
        if os.path.exists(w.hashes):
            with open(w.hashes, "rb") as f:
                data = f.read()
            for (h,) in struct.iter_unpack("<Q", data[: len(data) // 8 * 8]):
                state["hashes"].add(h)
            os.unlink(w.hashes)
        if os.path.exists(w.progress):
            os.unlink(w.progress)


def handle_bad_run(prop, cfg, variant, seed, tier, idx, event, findings, state, err):
    harness = cfg["harness"]
    if event is not None and event.get("status") == "inconclusive":
        state["inconclusive"] += 1
        return True
    if event is not None and event.get("status") == "violation":
        k = match_known(findings, prop, event.get("class"), event.get("key"))
        if k is not None:
            state["known"].setdefault((k["class"], k["key"]), k)
            state["known_runs"] += 1
            return True
        dup = (variant, event.get("class"), event.get("key"))
        if dup in state["seen"]:
            state["dup_violation_runs"] += 1
            return True
    # investigate in a fresh process: reproduce from the seed in forked children, minimise, gate
    os.makedirs(REPLAYS, exist_ok=True)
    tmp = os.path.join(REPLAYS, "tmp-%s-%s-%d.json" % (prop, variant, idx))
    r = subprocess.run([os.path.join(BIN, variant), "investigate", "--harness", harness, "--seed", str(seed), "--index", str(idx), "--tier", str(tier),
                        "--out", tmp, "--time", "25"], stdout=subprocess.PIPE, stderr=subprocess.PIPE, text=True)
    inv = None
    for line in r.stdout.splitlines():
        try:
            j = json.loads(line)
            if j.get("type") == "investigate":
                inv = j
        except Exception:
            pass
    if inv is None or not inv.get("reproduced"):
        msg = "run %d of %s/%s ended badly but did not reproduce from its seed: %s %s" % (idx, harness, variant, r.stdout[-400:], (err or "")[-400:])
        # A worker that died for a reason outside the simulation (killed, binary replaced under it, host out of memory) leaves a
        # run that replays cleanly from its seed. One or two of those are recorded and tolerated; more is an infrastructure error.
        if event is None and inv is not None and inv.get("status") == "ok":
            state["irreproducible_deaths"].append(msg)
            log("WARNING worker died outside the simulation (run replays cleanly): %s" % msg[:200])
            if len(state["irreproducible_deaths"]) <= 2:
                return True
        state["infra"].append(msg)
        return False
    cls, key = inv.get("class"), inv.get("key")
    k = match_known(findings, prop, cls, key)
    if k is not None:
        state["known"].setdefault((k["class"], k["key"]), k)
        state["known_runs"] += 1
        os.unlink(tmp)
        return True
    if (variant, cls, key) in state["seen"]:
        state["dup_violation_runs"] += 1
        os.unlink(tmp)
        return True
    # determinism gate: two fresh-process replays must reproduce with identical hashes
    hashes = []
    for _ in range(2):
        rr = subprocess.run([os.path.join(BIN, variant), "replay", "--file", tmp], stdout=subprocess.PIPE, stderr=subprocess.PIPE, text=True)
        ok = False
        for line in rr.stdout.splitlines():
            try:
                j = json.loads(line)
            except Exception:
                continue
            if j.get("type") == "replay" and j.get("reproduced"):
                ok = True
                hashes.append(j.get("log_hash"))
        if not ok:
            state["infra"].append("replay of %s did not reproduce in a fresh process" % tmp)
            return False
    if hashes[0] != hashes[1]:
        state["infra"].append("replay of %s is not deterministic" % tmp)
        return False
    safe = "".join(c if c.isalnum() or c in "._-" else "_" for c in "%s-%s" % (cls, key))[:80]
    final = os.path.join(REPLAYS, "%s-%s-%s-%d.json" % (prop, variant, safe, idx))
    os.replace(tmp, final)
    state["seen"].add((variant, cls, key))
    state["violations"].append({"variant": variant, "index": idx, "class": cls, "key": key, "msg": inv.get("msg"), "replay": final,
                                "to_decisions": inv.get("to_decisions"), "from_decisions": inv.get("from_decisions")})
    return True


def run_conformance(variant):
    """Scripted call sequences against the real kernel and the simulated one must agree (model fidelity guard)."""
    try:
        r = subprocess.run([os.path.join(BIN, variant), "conform"], stdout=subprocess.PIPE, stderr=subprocess.PIPE, text=True, timeout=60)
    except Exception as e:
        log("WARNING conformance self-test could not run: %s" % e)
        return {"ran": False}
    res = {"ran": True, "exit": r.returncode}
    for line in r.stdout.splitlines():
        try:
            j = json.loads(line)
            if j.get("type") == "conformance":
                res.update({"observations": j["observations"], "mismatches": j["mismatches"]})
        except Exception:
            pass
    if r.returncode != 0:
        log("WARNING conformance self-test: simulated kernel disagrees with the real one on this host:\n%s" % r.stderr[-1500:])
        res["detail"] = r.stderr[-1500:]
    return res


def check_property(prop, tier, seed):
    cfg = PROPS[prop]
    t_start = time.time()
    os.makedirs(RUNDIR, exist_ok=True)
    os.makedirs(EVIDENCE, exist_ok=True)
    variants = cfg["variants"]
    bt = build(variants)
    findings, fixed = load_known()
    tnum = 0 if tier == "quick" else 1
    total = cfg["quick_s"] if tier == "quick" else cfg["thorough_s"]
    total = float(os.environ.get("VERIF_TIME", total))
    state = {"summaries": [], "samples": [], "violations": [], "known": {}, "known_runs": 0, "infra": [], "hashes": set(), "inconclusive": 0,
             "seen": set(), "dup_violation_runs": 0, "irreproducible_deaths": []}
    conformance = run_conformance(variants[0]) if cfg.get("conformance") else None
    per = total / len(variants)
    for v in variants:
        run_variant(prop, cfg, v, seed, tnum, per, findings, state)
        if state["infra"]:
            break
    wall = time.time() - t_start
    # aggregate
    runs = sum(s["runs"] for s in state["summaries"])
    steps = sum(s["steps"] for s in state["summaries"])
    nontrivial = sum(s["nontrivial"] for s in state["summaries"])
    fired, probes = {}, {}
    det_r = det_m = 0
    per_variant = {}
    sim_s = 0.0
    for s in state["summaries"]:
        for k, v in s.get("fired", {}).items():
            fired[k] = fired.get(k, 0) + v
        for k, v in s.get("probes", {}).items():
            probes[k] = probes.get(k, 0) + v
        det_r += s["det_reruns"]
        det_m += s["det_mismatch"]
        sim_s += s.get("sim_ns", 0) / 1e9
        pv = per_variant.setdefault(s["variant"], {"runs": 0, "steps": 0})
        pv["runs"] += s["runs"]
        pv["steps"] += s["steps"]
    unreached = [p for p in cfg.get("probes", []) if probes.get(p, 0) == 0]
    for p in unreached:
        log("WARNING reach-lost: probe %s was not reached in this run of %s" % (p, prop))
    run_wall = max(1e-9, sum(s["wall_s"] for s in state["summaries"]) / max(1, NWORKERS))
    known_printed = []
    for (cls, key), k in sorted(state["known"].items()):
        msg = "KNOWN-FINDING: property=%s %s [class=%s key=%s]" % (prop, k["text"], cls, key)
        log(msg)
        known_printed.append(msg)
    evidence = {
        "property_id": prop, "tier": tier, "seed": seed, "level": cfg["level"], "wall_s": round(wall, 2), "violations": len(state["violations"]),
        "coverage": {
            "evaluations": runs,
            "distinct_nontrivial": len(state["hashes"]),
            "rule": cfg["rule"],
            "samples": state["samples"] or [{"note": "no sample produced"}],
            "steps": steps, "nontrivial_runs": nontrivial,
            "runs_per_hour": int(runs / run_wall * 3600) if runs else 0,
            "simulated_time_s": round(sim_s, 3),
            "faults_fired": fired, "probes": probes, "unreached_probes": unreached,
            "inconclusive": state["inconclusive"],
            "determinism_sample": {"reruns": det_r, "mismatches": det_m},
            "per_variant": per_variant,
            "components": cfg["components"],
            "known_findings_printed": known_printed, "known_finding_runs": state["known_runs"],
            "violations_found": state["violations"],
            "irreproducible_worker_deaths": state["irreproducible_deaths"],
            "build_s": round(bt, 1),
            "kernel_model_conformance": conformance,
        },
        "assumptions": cfg["assumptions"],
    }
    with open(os.path.join(EVIDENCE, prop + ".json"), "w") as f:
        json.dump(evidence, f, indent=1)
    if state["infra"]:
        for m in state["infra"]:
            sys.stderr.write("INFRA: %s\n" % m)
        if not state["violations"]:
            log("check %s: infrastructure error (no verdict)" % prop)
            return 2
        log("check %s: infrastructure trouble in part of the run; the violations below passed the replay gate on their own" % prop)
    log("check %s tier=%s seed=%d: %d runs, %d distinct non-trivial orders, %d violations, %d known-finding runs, %.1fs" %
        (prop, tier, seed, runs, len(state["hashes"]), len(state["violations"]), state["known_runs"], wall))
    if runs == 0 and not state["violations"]:
        sys.stderr.write("INFRA: no run executed\n")
        return 2
    if state["violations"]:
        for v in state["violations"]:
            log("  %s [%s] %s key=%s: %s (minimised %s -> %s decisions)" % (prop, v["variant"], v["class"], v["key"], v["msg"], v["from_decisions"], v["to_decisions"]))
            log("VIOLATION property=%s replay=%s" % (prop, v["replay"]))
        return 1
    return 0


def replay(path):
    try:
        j = json.load(open(path))
    except Exception as e:
        sys.stderr.write("cannot read %s: %s\n" % (path, e))
        return 2
    variant = j["variant"]
    build([variant])
    r = subprocess.run([os.path.join(BIN, variant), "replay", "--file", path, "--trace"], text=True)
    return r.returncode


def selftest():
    bins = sorted(os.listdir(BIN)) if os.path.isdir(BIN) else []
    if not bins:
        sys.stderr.write("selftest: no binaries\n")
        return 2
    ok = True
    for prop, cfg in sorted(PROPS.items()):
        for v in cfg["variants"]:
            r = subprocess.run([os.path.join(BIN, v), "run", "--harness", cfg["harness"], "--seed", "424242", "--count", "300", "--tier", "0"],
                               stdout=subprocess.PIPE, stderr=subprocess.PIPE, text=True)
            last = r.stdout.strip().splitlines()[-1] if r.stdout.strip() else ""
            status = "ok" if r.returncode in (0, 3) else "FAILED rc=%d" % r.returncode
            if r.returncode not in (0, 3):
                ok = False
                sys.stderr.write(r.stderr[-500:])
            log("selftest %s %s %s: %s" % (prop, cfg["harness"], v, status))
            _ = last
    for v in ("A.c11.posix", "T.c11.posix"):
        c = run_conformance(v)
        log("selftest conformance %s: %s" % (v, json.dumps(c)))
    return 0 if ok else 2


def main():
    ap = argparse.ArgumentParser()
    ap.add_argument("prop", nargs="?")
    ap.add_argument("--tier", default=os.environ.get("VERIF_TIER", "quick"))
    ap.add_argument("--seed", type=int, default=None)
    ap.add_argument("--replay")
    ap.add_argument("--selftest", action="store_true")
    a = ap.parse_args()
    if a.selftest:
        sys.exit(selftest())
    if a.replay:
        sys.exit(replay(a.replay))
    if not a.prop or a.prop not in PROPS:
        sys.stderr.write("unknown property; known: %s\n" % " ".join(sorted(PROPS)))
        sys.exit(2)
    seed = a.seed if a.seed is not None else int(os.environ.get("VERIF_SEED", "20261003"))
    tier = a.tier if a.tier in ("quick", "thorough") else "quick"
    sys.exit(check_property(a.prop, tier, seed))


if __name__ == "__main__":
    main()
