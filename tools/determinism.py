#!/usr/bin/env python3
"""Determinism proof: every harness/variant executes N seeds twice, in separate processes and with different worker
counts (16 and 3); the per-run event-log hashes must be identical. Exit 0 = deterministic, 2 = mismatch."""
import os, subprocess, sys, tempfile, json
VERIF = os.path.dirname(os.path.dirname(os.path.abspath(__file__)))
sys.path.insert(0, os.path.join(VERIF, "tools"))
from props import PROPS
BIN = os.path.join(os.environ.get("VERIF_BUILD", os.path.join(VERIF, "build")), "bin")
N = int(sys.argv[1]) if len(sys.argv) > 1 else 2000

def sweep(variant, harness, workers, tmp, tag):
    procs = []
    for w in range(workers):
        f = os.path.join(tmp, "%s.%s.%s.%d" % (harness, variant, tag, w))
        procs.append((f, subprocess.Popen([os.path.join(BIN, variant), "run", "--harness", harness, "--seed", "987654321", "--start", str(w), "--stride", str(workers),
                                           "--count", str((N - w + workers - 1) // workers), "--dump", f], stdout=subprocess.DEVNULL, stderr=subprocess.DEVNULL)))
    res = {}
    for f, p in procs:
        p.wait()
        if os.path.exists(f):
            for line in open(f):
                i, h, st, steps = line.split()
                res[int(i)] = (h, st, steps)
    return res

def main():
    bad = 0
    total = 0
    with tempfile.TemporaryDirectory(dir=os.path.join(VERIF, "build")) as tmp:
        for prop, cfg in sorted(PROPS.items()):
            for v in cfg["variants"]:
                a = sweep(v, cfg["harness"], 16, tmp, "a")
                b = sweep(v, cfg["harness"], 3, tmp, "b")
                common = set(a) & set(b)
                diff = [i for i in common if a[i] != b[i]]
                total += len(common)
                print("%s %-10s %-14s compared %5d runs: %d mismatches%s" % (prop, cfg["harness"], v, len(common), len(diff), (" e.g. index %d %s vs %s" % (diff[0], a[diff[0]], b[diff[0]])) if diff else ""))
                sys.stdout.flush()
                bad += len(diff)
    print(json.dumps({"type": "determinism", "runs_compared": total, "mismatches": bad}))
    return 2 if bad else 0

if __name__ == "__main__":
    sys.exit(main())
