"""Per-property configuration of the simulation checks (harness, binary variants, budgets, evidence texts)."""

COMMON_ASSUME = [
    "sampling, not enumeration: a clean batch is evidence, not proof",
    "library sources are compiled unmodified by GCC 12 -O2 and their external references retargeted with objcopy",
]
STUB_KERNEL = ["sem_open/close/unlink/wait/post", "shm_open/unlink", "ftruncate/fstat/close (descriptor table)", "mmap/munmap bookkeeping (mappings are real memfd mappings)", "processes and SIGKILL", "clock"]
STUB_NET = ["socket/bind/listen/accept/connect/send/sendto/recv/recvfrom/poll/shutdown/get|setsockopt/getsockname/getpeername/fcntl (simulated loopback network)", "signal (SIGPIPE disposition)", "clock"]
STUB_PTHREAD = ["pthread_mutex_*", "pthread_cond_*", "pthread_rwlock_*", "pthread_create/join/exit/self/key_*", "scheduler (seeded, cooperative fibers)", "allocator (p_mem_set_vtable)"]

PROPS = {
    "C01": {
        "harness": "locks",
        "variants": ["T.c11.posix", "T.sync.posix", "T.sim.posix"],
        "quick_s": 9, "thorough_s": 300,
        "level": "exploration",
        "rule": ("one evaluation = one simulated run of generated per-task lock/trylock/unlock scripts (2-5 tasks, 1-3 PMutex/PSpinLock objects) under one seeded "
                 "schedule, preemptible before every atomic, fence, volatile access and pthread call of the library; 1 run in 100 first ages every lock by 2^8, 2^15 or 2^16 (+-1, +-2) uncontended acquisitions; distinct = distinct hash of "
                 "(per-lock acquisition order, event log); non-trivial = more than one context switch or one fired fault"),
        "probes": ["lock.trylock_succeeded", "lock.trylock_busy", "lock.nested", "lock.aged", "lock.native_lock_failed_reported", "lock.native_trylock_failed"],
        "components": {"real": ["pmutex-posix.c", "pspinlock-c11.c", "pspinlock-sync.c", "pspinlock-sim.c", "pmem.c", "pmain.c", "puthread.c (init only)"],
                       "stub": STUB_PTHREAD + ["execution of __atomic/__sync builtins and volatile accesses (own __tsan_* runtime)"]},
        "assumptions": COMMON_ASSUME + ["simulated pthread mutex states POSIX semantics", "happens-before from declared memory orders (c11) / x86 view of volatile+fence (sync)"],
    },
    "C04": {
        "harness": "atomics",
        "variants": ["T.c11.posix", "T.sync.posix", "T.sim.posix"],
        "quick_s": 9, "thorough_s": 300,
        "level": "exploration",
        "rule": ("one evaluation = one simulated run of a generated workload on one int and one pointer-sized word: mixed operations with boundary operands "
                 "(1-5 tasks), ticket, reference count, CAS-increment loops, message passing (plain payload published through an atomic) or store buffering "
                 "(Dekker, under an x86-TSO store-buffer model for the c11 build); the recorded invoke/return history is checked for linearizability against "
                 "wrapping 32-bit / 64-bit C arithmetic; distinct = distinct hash of (operation order per word, event log); non-trivial = more than one context switch"),
        "probes": ["lin.checked_6plus", "lin.single_threaded", "casinc.retry", "mp.flag_observed", "dekker.both_one"],
        "components": {"real": ["patomic-c11.c", "patomic-sync.c", "patomic-sim.c (+ pmutex-posix.c)", "pmem.c", "pmain.c"],
                       "stub": STUB_PTHREAD + ["execution of __atomic/__sync builtins and volatile accesses (own __tsan_* runtime)", "x86-TSO store buffer (c11 build, Dekker workload)"]},
        "assumptions": COMMON_ASSUME + ["linearizability search capped at 40 calls per word and 4e5 nodes (beyond: inconclusive, counted, never a violation)",
                                        "store-buffer model covers explicit atomic stores of the c11 build only; fence removal in the sync model is invisible on x86"],
    },
    "C02": {
        "harness": "rwlock",
        "variants": ["T.c11.general", "T.c11.posix"],
        "quick_s": 10, "thorough_s": 300,
        "level": "exploration",
        "rule": ("one evaluation = one simulated run of generated reader/writer lock, trylock and unlock scripts (2-6 tasks, one PRWLock) or of the readers-only "
                 "barrier scenario, under one seeded schedule with spurious condition-variable wake-ups and reader/writer preference of the native lock as faults; "
                 "distinct = distinct hash of (grant order, event log); non-trivial = more than one context switch or one fired fault"),
        "probes": ["rw.two_readers_inside", "rw.all_readers_inside", "rw.tryread_joined_readers", "rw.trywrite_ok", "rw.trywrite_busy", "rw.tryread_busy",
                   "rw.writer_arrives_with_2_readers", "cond.spurious_wakeup", "cond.broadcast_woke_many"],
        "components": {"real": ["prwlock-general.c over pmutex-posix.c + pcondvariable-posix.c (T.c11.general)", "prwlock-posix.c (T.c11.posix)", "pmem.c", "pmain.c"],
                       "stub": STUB_PTHREAD},
        "assumptions": COMMON_ASSUME + ["simulated pthread mutex / condition variable / rwlock state POSIX semantics (spurious wake-ups and either reader/writer preference are legal)"],
    },
    "C03": {
        "harness": "condvar",
        "variants": ["T.c11.posix"],
        "quick_s": 8, "thorough_s": 240,
        "level": "exploration",
        "rule": ("one evaluation = one simulated run of a bounded buffer (1-4 producers, 1-4 consumers, capacity 1-3; signal per event on two condition variables or "
                 "broadcast on one), a gate (1-5 waiters, one broadcast) or a single parked waiter signalled once, under one seeded schedule with spurious wake-ups and "
                 "extra waiters released by signal as faults; distinct = distinct hash of (wake order, event log); non-trivial = more than one context switch or one fired fault"),
        "probes": ["bb.consumer_waited", "bb.producer_waited", "cond.signal_with_waiter", "cond.broadcast_with_2_waiters", "cond.signal_to_parked_waiter", "cond.mutex_taken_by_trylock", "cond.notify_without_mutex",
                   "cond.spurious_wakeup", "cond.signal_woke_two", "cond.notify_without_mutex"],
        "components": {"real": ["pcondvariable-posix.c", "pmutex-posix.c", "pmem.c", "pmain.c"], "stub": STUB_PTHREAD},
        "assumptions": COMMON_ASSUME + ["simulated pthread_cond_* / pthread_mutex_* state POSIX semantics"],
    },
    "C05": {
        "harness": "threads",
        "variants": ["T.c11.posix", "T.sync.posix", "T.sim.posix"],
        "quick_s": 12, "thorough_s": 300,
        "level": "exploration",
        "rule": ("one evaluation = one simulated run of a generated program: the root creates 1-6 joinable or detached threads (bodies of TLS set/replace/get on 0-3 keys, "
                 "result writes, p_uthread_current, ref/unref of the own handle, set_priority, yield, exit(code)) interleaved with ref/unref/join, plus 0-2 threads the "
                 "library did not create, under one seeded schedule preemptible at every atomic, volatile access and pthread call; distinct = distinct event-log hash; "
                 "non-trivial = more than one context switch"),
        "probes": ["thread.joined", "thread.started_before_create_returned", "thread.unref_before_child_started", "tls.key_deleted", "tls.replace_destroyed_old", "thread.foreign_current", "thread.native_id_reused", "tls.key_freed_while_value_held"],
        "components": {"real": ["puthread.c", "puthread-posix.c", "patomic-*.c and pspinlock-*.c of the variant", "pmem.c", "pstring.c", "pmain.c"], "stub": STUB_PTHREAD},
        "assumptions": COMMON_ASSUME + ["simulated pthread_create/join/exit/key_* state POSIX semantics (destructors run in key order, up to 4 rounds)",
                                        "handle release observed through the tracking allocator (the PUThread block returned by p_uthread_create)"],
    },
    "C06": {
        "conformance": True,
        "harness": "ipc_sem",
        "variants": ["T.c11.posix", "A.c11.posix"],
        "quick_s": 12, "thorough_s": 300,
        "level": "exploration",
        "rule": ("one evaluation = one simulated run: 1-3 simulated processes x 1-2 tasks run generated scripts of new(OPEN|CREATE, value 0-3)/acquire/release/"
                 "take_ownership/free on two names (life-cycle calls serialised in 3 of 4 runs, acquire/release always concurrent; in 1 of 4 runs everything overlaps and only the interleaving-proof oracles apply), optionally with a SIGKILL of one process before/after its "
                 "k-th IPC system call and EINTR injection, followed by the documented clean-up (open, take ownership, free, create) from a fresh process; "
                 "distinct = distinct hash of (per-name operation order, event log); non-trivial = more than one context switch or one fired fault"),
        "probes": ["sem.open_existing", "sem.create_on_existing", "sem.owner_free", "sem.take_ownership", "sem.wait_blocked", "sem.kill_happened", "sem.name_space_scanned", "sem.release_at_maximum", "sem.concurrent_created",
                   "sem.same_process_reopen", "sem.acquire_cancelled_at_quiescence", "eintr.sem_wait", "sem.concurrent_created", "sem.new_failed_under_overlap"],
        "components": {"real": ["psemaphore-posix.c", "pipc.c", "pcryptohash.c + pcryptohash-sha1.c (name hashing)", "perror.c", "pmem.c", "pmain.c"], "stub": STUB_KERNEL + STUB_PTHREAD},
        "assumptions": COMMON_ASSUME + ["POSIX semaphore name space modelled with Linux/glibc semantics (same name in one process = one reference-counted sem_t, unlink keeps open objects alive)",
                                        "simulated processes share one address space; kills happen at IPC system calls"],
    },
    "C07": {
        "conformance": True,
        "harness": "ipc_shm",
        "variants": ["T.c11.posix", "A.c11.posix"],
        "quick_s": 14, "thorough_s": 300,
        "level": "exploration",
        "rule": ("one evaluation = one simulated run: 1-3 simulated processes x 1-2 tasks run generated scripts of new(size, RW|RO)/lock/unlock/write/read/sweep/"
                 "take_ownership/free on two names with sizes from {1,7,64,4096,4097,10000,12288,65536,random} (life-cycle calls serialised, data access under the "
                 "library lock), or 2-3 processes opening a fresh name concurrently and incrementing a plain in-segment counter under the lock; optionally a SIGKILL "
                 "of one process before/after its k-th IPC system call and EINTR; then the documented clean-up from a fresh process; mappings are real memfd mappings; "
                 "distinct = distinct hash of (per-name operation order, event log); non-trivial = more than one context switch or one fired fault"),
        "probes": ["shm.created", "shm.opened_smaller", "shm.opened_larger", "shm.opened_same_size", "shm.owner_free", "shm.take_ownership", "shm.byte_written", "shm.byte_read",
                   "shm.kill_happened", "shm.concurrent_creators_ok", "sem.wait_blocked"],
        "components": {"real": ["pshm-posix.c", "psemaphore-posix.c", "pipc.c", "pcryptohash.c + pcryptohash-sha1.c", "psysclose-unix.c", "perror.c", "pmem.c"], "stub": STUB_KERNEL + STUB_PTHREAD},
        "assumptions": COMMON_ASSUME + ["shm/sem name spaces and descriptors are simulated with Linux semantics; mappings are real (memfd) between guard pages",
                                        "simulated processes share one address space; kills happen at IPC system calls"],
    },
    "C08": {
        "conformance": True,
        "harness": "shmbuf",
        "variants": ["A.c11.posix", "T.c11.posix"],
        "quick_s": 12, "thorough_s": 300,
        "level": "exploration",
        "rule": ("one evaluation = one simulated run on one PShmBuffer of capacity S in {1,2,3,5,8,16,64} with 1-3 handles (same or other simulated process) opened with "
                 "equal, larger or (few runs) smaller size arguments: sequential histories of write/read/free/used/clear with lengths from {0,1,S-1,S,S+1, exactly free, "
                 "exactly used, free+1, random} compared with a FIFO byte-queue model after every call, or concurrent histories (2-4 tasks) checked by linearizability search; "
                 "flavour A: ASan-instrumented library, exact-size caller buffers, poisoned segment tail, guard pages; flavour T: race detector on header words and data bytes; "
                 "distinct = distinct hash of (operation order, event log); non-trivial = more than one context switch or one fired fault"),
        "probes": ["buf.full_after_write", "buf.empty_after_read", "buf.write_exact_free", "lin.concurrent_history_ok", "sem.wait_blocked", "buf.opened_while_full", "buf.opened_while_non_empty"],
        "components": {"real": ["pshmbuffer.c", "pshm-posix.c", "psemaphore-posix.c", "pipc.c", "pcryptohash-sha1.c", "perror.c", "pmem.c"], "stub": STUB_KERNEL + STUB_PTHREAD},
        "assumptions": COMMON_ASSUME + ["len == 0 is outside the statement (documented invalid argument): results 0 and -1 accepted, no state change",
                                        "linearizability search capped at 40 calls and 6e5 nodes (beyond: inconclusive, counted)"],
    },
    "C09": {
        "conformance": True,
        "harness": "sock_data",
        "variants": ["A.c11.posix"],
        "quick_s": 12, "thorough_s": 300,
        "level": "exploration",
        "rule": ("one evaluation = one simulated run: TCP (server + 1-2 clients, IPv4 or IPv6 loopback, 1 B-32 KiB position-coded streams in chunks of 1 B-8 KiB, receive "
                 "buffers of 1 B-8 KiB, socket buffers 16 B-64 KiB, blocking and non-blocking ends mixed, optional early quit of the receiver), a request / half-close / response / close exchange with an optionally slow reader, or UDP (2-3 bound sockets "
                 "exchanging numbered datagrams of 4-2000 B, short receive buffers) with EINTR, EAGAIN-after-poll, short send/recv, delivery delay, late timers and "
                 "(UDP) loss/duplication/reordering injected into the simulated system calls; distinct = distinct event-log hash; non-trivial = more than one context switch or one fired fault"),
        "probes": ["data.partial_send_reported", "data.nonblocking_send_waited", "data.nonblocking_receive_waited", "data.eof_seen", "data.receiver_quit_early", "data.empty_datagram_sent", "data.empty_datagram_received",
                   "data.send_error_after_peer_gone", "data.nonblocking_connect", "data.datagram_received", "data.stream_1k_plus", "data.half_close", "data.reqresp_done", "sock.short_send", "sock.eagain_after_poll",
                   "sock.send_buffer_full", "sock.epipe", "sock.dgram_truncated", "eintr.send", "eintr.recv", "eintr.poll", "eintr.accept", "eintr.recvfrom", "eintr.sendto",
                   "eintr.connect_before_start", "eintr.connect_after_start"],
        "components": {"real": ["psocket.c", "psocketaddress.c", "perror.c", "psysclose-unix.c", "pmem.c", "pmain.c"], "stub": STUB_NET + STUB_PTHREAD},
        "assumptions": COMMON_ASSUME + ["the socket layer is a model of Linux loopback semantics (connect EINPROGRESS then SO_ERROR, EAGAIN after a positive poll is legal, RST on close with unread data)",
                                        "after EINTR on connect the model only offers what Linux offers a non-blocking connect (EALREADY, then 0)"],
    },
    "C10": {
        "conformance": True,
        "harness": "sock_state",
        "variants": ["A.c11.posix"],
        "quick_s": 10, "thorough_s": 240,
        "level": "exploration",
        "rule": ("one evaluation = one simulated run of a generated call history on one or two library sockets (client, server with accepted socket, or datagram scenario; "
                 "IPv4/IPv6) against a scripted raw peer whose actions are events on the simulated clock: option calls with timeouts from {0,1,50,1000,60000,negative}, "
                 "connect to a listener / to nobody / to a listener with a full backlog, accept, send, receive, send_to, receive_from, shutdown, io_condition_wait, close, "
                 "calls after close, close again, free; every call is classified by the socket state machine model; distinct = distinct event-log hash; "
                 "non-trivial = more than one context switch or one fired fault"),
        "probes": ["state.timed_out_on_time", "state.long_timeout_cost_nothing", "state.nonblocking_would_block", "state.blocking_waited_for_peer", "state.io_on_closed", "state.failed_listen", "state.failed_keepalive", "state.failed_bind", "state.connected_without_asking", "state.send_path_full",
                   "state.close_idempotent", "state.send_path_full", "state.connect_in_progress", "state.connect_refused", "state.connect_stalled_timed_out", "state.accepted", "state.backlog_ignored_after_listen"],
        "components": {"real": ["psocket.c", "psocketaddress.c", "perror.c", "psysclose-unix.c", "pmem.c", "pmain.c"], "stub": STUB_NET + STUB_PTHREAD},
        "assumptions": COMMON_ASSUME + ["time-outs are compared on the simulated clock (exact); timers may fire late, never early",
                                        "the scripted peer talks to the simulated kernel directly (raw calls), not through the library"],
    },
    "C19": {
        "conformance": True,
        "harness": "eintr",
        "variants": ["A.c11.posix"],
        "quick_s": 10, "thorough_s": 240,
        "level": "fault_enumeration",
        "rule": ("one evaluation = one blocking scenario (p_uthread_sleep with 8 durations and 4 stale errno values; semaphore acquire on a 0-counter released later, create/open; "
                 "shm create + lock held by another task; blocking TCP accept/connect/receive/send with late peers and full buffers; UDP receive_from / io_condition_wait with a "
                 "late datagram) under one injection plan: EINTR at the k-th invocation (k = 1..6, thorough 1..12) of one interruptible system call, a pair of such injections, or a "
                 "signal storm with probability 0.05-0.9 per opportunity; outcome compared with the undisturbed one on the simulated clock; distinct = distinct event-log hash; "
                 "non-trivial = at least one fired injection or more than one context switch"),
        "probes": ["eintr.planned", "eintr.some_fired", "sleep.interrupted", "sleep.interrupted_twice", "sleep.long_sleep_cost_nothing", "eintr.sem_wait", "eintr.poll", "eintr.accept", "eintr.second_handle_of_existing_segment",
                   "eintr.recv", "eintr.send", "eintr.recvfrom", "eintr.sendto", "eintr.connect_before_start", "eintr.connect_after_start"],
        "components": {"real": ["puthread.c (sleep)", "psemaphore-posix.c", "pshm-posix.c", "psocket.c", "perror.c", "pmem.c"], "stub": STUB_KERNEL + STUB_NET + STUB_PTHREAD},
        "assumptions": COMMON_ASSUME + ["a handled signal is modelled by its only observable effect on a blocked call: EINTR (or, for clock_nanosleep, the returned error number and the remaining time)",
                                        "after EINTR on connect only the sequences Linux produces for a non-blocking connect are offered (EALREADY, then 0)"],
    },
    "C18": {
        "harness": "nomem",
        "variants": ["A.c11.posix", "A.c11.general"],
        "quick_s": 10, "thorough_s": 180,
        "level": "fault_enumeration",
        "rule": ("one evaluation = one (scenario, k, mode) triple: one of 17 allocating scenarios (list; hash table; BST/RB/AVL tree; string; error; 11 crypto hashes; INI "
                 "file; directory; socket address; TCP socket pair; semaphore + shm + shm buffer; mutex/cond/rwlock/spinlock; thread + TLS; library loader; time profiler) "
                 "is first run without faults to count its N allocations, then re-run with allocation k (uniform in 1..N) failing once or from k onwards; oracle: no crash or "
                 "sanitizer report, documented failure value, objects that existed before unchanged, outstanding-block set / descriptors / mappings / IPC names back at the "
                 "baseline after clean-up; distinct = distinct (scenario, k, mode, schedule) hash; non-trivial = an allocation really failed"),
        "probes": ["nomem.allocation_failed", "alloc.failed_second_or_later_in_scenario", "nomem.loader_loaded"] + ["nomem." + n for n in
                   ["list", "hash_table", "tree_bst", "tree_rb", "tree_avl", "string", "error", "crypto_hashes", "ini_file", "dir", "socket_address", "socket", "ipc", "locks",
                    "threads_tls", "library_loader", "time_profiler"]],
        "components": {"real": ["every module of the library (containers, string, error, hashes, INI, dir, socket address, socket, IPC, locks, threads, loader, profiler)"],
                       "stub": ["allocator (p_mem_set_vtable): the fault source"] + STUB_KERNEL + STUB_NET + STUB_PTHREAD + ["fopen/opendir/dlopen: real, counted"]},
        "assumptions": COMMON_ASSUME + ["scenarios are representative call sequences per allocating entry point, not all programs",
                                        "k is sampled uniformly per scenario; with >1e5 runs per check every (scenario, k, mode) triple is hit many times (coverage reported through probes)"],
    },
    "C20": {
        "conformance": True,
        "harness": "neutral",
        "variants": ["A.c11.posix", "A.c11.general"],
        "quick_s": 14, "thorough_s": 300,
        "level": "exploration",
        "rule": ("one evaluation = one generated program of 5-40 (thorough 60) steps over a pool of live objects of 20 kinds (list, hash table, trees that own heap keys/values, INI, "
                 "crypto hash, error, directory, socket address, sockets incl. refused / timed-out / accepted connections, semaphore, shm, shm buffer with equal and different "
                 "sizes, joinable and detached threads, TLS keys, mutex, condition variable, rwlock, spinlock, library loader, profiler): create / use / free in random order, "
                 "everything freed at the end (IPC objects by an owner), with allocation failures (p in {0, 0.01, 0.05}) and up to two planned failing system calls plus "
                 "failing pthread_create / pthread_key_create; oracle: allocator, descriptor table, VM table, IPC name space, real streams/handles and native lock objects all "
                 "back at the baseline, every descriptor closed exactly once; distinct = distinct event-log hash; non-trivial = more than one context switch or one fired fault"),
        "probes": ["neutral." + n for n in ["list", "hash", "tree", "ini", "cryptohash", "error", "dir", "sockaddr", "socket", "semaphore", "shm", "shmbuffer", "thread", "tlskey",
                   "mutex", "cond", "rwlock", "spinlock", "loader", "profiler", "allocation_failed", "tree_removed", "tree_6_nodes"]],
        "components": {"real": ["every module of the library"], "stub": ["allocator (p_mem_set_vtable)"] + STUB_KERNEL + STUB_NET + STUB_PTHREAD + ["fopen/opendir/dlopen: real, counted, failable"]},
        "assumptions": COMMON_ASSUME + ["native TLS keys (pthread_key_t slots) are not counted as a resource: the statement lists memory, descriptors, mappings and IPC names"],
    },
}


# ---- evaluation rules brought up to date with the workloads added after the first build (DESIGN.md section 10, item 19)
def _rep(pid, a, b):
    r = PROPS[pid]["rule"]
    assert a in r, (pid, a)
    PROPS[pid]["rule"] = r.replace(a, b, 1)
_rep("C01", "uncontended acquisitions;", "uncontended acquisitions; 1 run in 16 makes one native pthread_mutex_lock (and 1 in 16 one trylock) fail, which the library call must report as FALSE;")
_rep("C05", "exit(code)) interleaved with ref/unref/join, plus 0-2 threads the library did not create,", "exit(code) or a plain return of NULL / a non-NULL pointer; TLS values replaced by new ones, by NULL or by themselves) interleaved with ref/unref/join, plus 0-2 threads the library did not create and (1 run in 4) a TLS key released while a thread still holds a value; native thread ids are recycled after join as glibc does,")
_rep("C06", "value 0-3)/acquire/release/take_ownership/free on two names", "value 0-3, rarely up to INT_MAX)/acquire/release/take_ownership/free on two names drawn from a pool (short, one character apart, 70 characters with a long common prefix); 1 run in 2000 scans 500 salted names for key collisions;")
_rep("C08", "of capacity S in {1,2,3,5,8,16,64} with 1-3 handles", "of capacity S in {1,2,3,5,8,16,64} (1 run in 8: 255-9000, across a page) with 1-4 handles, some opened while the queue holds data,")
_rep("C09", "numbered datagrams of 4-2000 B, short receive buffers)", "numbered datagrams of 0-2000 B, short receive buffers, full source address compared)")
_rep("C10", "timeouts from {0,1,50,1000,60000,negative},", "timeouts from {0,1,50,1000,60000,-5} and rarely {-1, 4294968, INT_MAX}, calls that fail on an open socket (listen / keep-alive / bind refused),")
_rep("C03", "a single parked waiter signalled once,", "a single parked waiter signalled once (in a third of the gate / single-waiter runs the notifier keeps the mutex for 0.3-61 s of simulated time before it changes the predicate and notifies),")
_rep("C08", "compared with a FIFO byte-queue model after every call,", "compared with a FIFO byte-queue model after every call, with EINTR injected into the lock waits (sem_wait) and the open calls in half of the runs,")
_rep("C09", "blocking and non-blocking ends mixed,", "blocking and non-blocking ends mixed, a third of the blocking stream sockets with a 200 ms / 5 s / 60 s timeout (a reported time-out must have lasted that long on the simulated clock),")
_rep("C10", "timeouts from {0,1,50,1000,60000,-5}", "blocking flag given as TRUE or another non-zero int (2, 4, 256, -2), timeouts from {0,1,50,1000,60000,-5}")
for _p, _probes in (("C03", ["cond.notifier_holds_mutex_for_simulated_time"]), ("C08", ["eintr.sem_wait"]), ("C09", ["data.blocking_with_timeout", "data.timeout_elapsed_for_real"])):
    for _x in _probes:
        if _x not in PROPS[_p]["probes"]: PROPS[_p]["probes"].append(_x)
_rep("C18", "one (scenario, k, mode) triple: one of 17 allocating scenarios", "one (scenario, parameters, k, mode) point: one of 17 allocating scenarios, each parametrised by six drawn values (lengths, key sets, operation sequences, files, socket variant, thread count),")
_rep("C19", "shm create + lock held by another task;", "shm create + lock held by another task + a second handle of the existing segment opened from another process (same object, bytes, size and lock; the segment survives that handle);")
