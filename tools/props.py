"""Per-property configuration of the simulation checks (harness, binary variants, budgets, evidence texts)."""

COMMON_ASSUME = [
    "sampling, not enumeration: a clean batch is evidence, not proof",
    "library sources are compiled unmodified by GCC 12 -O2 and their external references retargeted with objcopy",
]
STUB_PTHREAD = ["pthread_mutex_*", "pthread_cond_*", "pthread_rwlock_*", "pthread_create/join/exit/self/key_*", "scheduler (seeded, cooperative fibers)", "allocator (p_mem_set_vtable)"]

PROPS = {
    "C01": {
        "harness": "locks",
        "variants": ["T.c11.posix", "T.sync.posix", "T.sim.posix"],
        "quick_s": 9, "thorough_s": 300,
        "level": "exploration",
        "rule": ("one evaluation = one simulated run of generated per-task lock/trylock/unlock scripts (2-5 tasks, 1-3 PMutex/PSpinLock objects) under one seeded "
                 "schedule, preemptible before every atomic, fence, volatile access and pthread call of the library; distinct = distinct hash of "
                 "(per-lock acquisition order, event log); non-trivial = more than one context switch or one fired fault"),
        "probes": ["lock.trylock_succeeded", "lock.trylock_busy", "lock.nested"],
        "components": {"real": ["pmutex-posix.c", "pspinlock-c11.c", "pspinlock-sync.c", "pspinlock-sim.c", "pmem.c", "pmain.c", "puthread.c (init only)"],
                       "stub": STUB_PTHREAD + ["execution of __atomic/__sync builtins and volatile accesses (own __tsan_* runtime)"]},
        "assumptions": COMMON_ASSUME + ["simulated pthread mutex states POSIX semantics", "happens-before from declared memory orders (c11) / x86 view of volatile+fence (sync)"],
    },
}
