#!/usr/bin/env python3
"""Confirm a seeded change produced by a sub-agent in its scratch worktree, then store it under /verif/seeded/<id>/.

  confirm_seeded.py <property> <id> <worktree> <demo command relative to worktree> [--needs "..."]

Confirmation (all in the scratch worktree, never in /repo): clean tree + patch applies; library builds; the 28 ctest
programs pass WITH the change; the demonstration fails WITH the change and passes WITHOUT it."""
import argparse, json, os, shutil, subprocess, sys, time

VERIF = os.path.dirname(os.path.dirname(os.path.abspath(__file__)))

def sh(cmd, cwd=None, timeout=1800):
    r = subprocess.run(cmd, shell=True, cwd=cwd, stdout=subprocess.PIPE, stderr=subprocess.STDOUT, text=True, timeout=timeout)
    return r.returncode, r.stdout

def main():
    ap = argparse.ArgumentParser()
    ap.add_argument("prop"); ap.add_argument("id"); ap.add_argument("wt"); ap.add_argument("demo")
    ap.add_argument("--needs", default="")
    ap.add_argument("--checks", default="")
    a = ap.parse_args()
    wt = a.wt
    log = []
    def step(name, cmd, want_zero=None, timeout=1800):
        t0 = time.time()
        rc, out = sh(cmd, cwd=wt, timeout=timeout)
        log.append({"step": name, "cmd": cmd, "exit": rc, "seconds": round(time.time() - t0, 1), "tail": out[-600:]})
        print("%-28s exit=%d  (%.0fs)" % (name, rc, time.time() - t0)); sys.stdout.flush()
        if want_zero is True and rc != 0: print(out[-1500:]); raise SystemExit("confirmation failed at: " + name)
        if want_zero is False and rc == 0: print(out[-1500:]); raise SystemExit("confirmation failed (expected failure) at: " + name)
        return rc, out
    patch = os.path.join(wt, "seeded", "patch.diff")
    step("clean tree", "git checkout -- src && git status --short -- src", True)
    step("apply patch", "git apply seeded/patch.diff", True)
    step("build with change", "cmake -G Ninja -S . -B _build -DCMAKE_BUILD_TYPE=RelWithDebInfo > /dev/null && cmake --build _build 2>&1 | tail -3", True)
    rc, out = step("ctest with change", "ctest --test-dir _build -j8 --timeout 900 2>&1 | tail -6", True)
    if "100% tests passed" not in out: raise SystemExit("test-suite does not pass with the change")
    step("demo with change (must fail)", a.demo, False, timeout=900)
    step("revert patch", "git apply -R seeded/patch.diff", True)
    step("build without change", "cmake --build _build 2>&1 | tail -3", True)
    step("demo without change (must pass)", a.demo, True, timeout=900)
    step("re-apply patch", "git apply seeded/patch.diff && cmake --build _build 2>&1 | tail -1", True)
    dst = os.path.join(VERIF, "seeded", a.id)
    os.makedirs(dst, exist_ok=True)
    for f in os.listdir(os.path.join(wt, "seeded")):
        src = os.path.join(wt, "seeded", f)
        if os.path.isfile(src) and os.path.getsize(src) < 2_000_000:
            shutil.copy(src, os.path.join(dst, f))
    meta = {"id": a.id, "property": a.prop, "checks": a.checks.split(",") if a.checks else [a.prop], "needs_to_manifest": a.needs,
            "origin": "independent sub-agent given only the property text and a scratch worktree", "demo_command": a.demo,
            "confirmed": log, "confirmed_at_repo_commit": subprocess.run(["git", "-C", wt, "rev-parse", "--short", "HEAD"], stdout=subprocess.PIPE, text=True).stdout.strip()}
    json.dump(meta, open(os.path.join(dst, "meta.json"), "w"), indent=1)
    print("stored in", dst)

if __name__ == "__main__":
    main()
