#!/usr/bin/env python3
"""Sensitivity sweep: apply one source mutation (mutants/catalog.py) or one seeded patch (seeded/<id>/patch.diff)
to a scratch copy of /repo, run the property's check against the copy, expect exit 1 with a replay, clean up.

  mutants.py [--only SUBSTR] [--prop Cxx] [--tier quick] [--time S] [--seeded] [--keep]
"""
import argparse, json, os, shutil, subprocess, sys, time

VERIF = os.path.dirname(os.path.dirname(os.path.abspath(__file__)))
sys.path.insert(0, os.path.join(VERIF, "mutants"))
SCRATCH_ROOT = "/var/tmp"


def make_scratch(tag):
    d = os.path.join(SCRATCH_ROOT, "vp-scratch-%d-%s" % (os.getpid(), tag))
    if os.path.exists(d):
        shutil.rmtree(d)
    os.makedirs(d)
    for attempt in range(3):
        rc = subprocess.call(["rsync", "-a", "--delete", "--exclude", "_build", "--exclude", ".git", "/repo/", d + "/"])
        if rc == 0:
            return d
        time.sleep(1)          # 24 = a file vanished while copying (somebody else touched the tree): copy again
    raise SystemExit("rsync of /repo failed (exit %d)" % rc)


def run_check(scratch, prop, tier, tsec):
    env = dict(os.environ)
    env.update({"PLIBSYS_SRC": scratch, "VERIF_BUILD": os.path.join(scratch, "vbuild"), "VERIF_OUT": os.path.join(scratch, "out")})
    if tsec:
        env["VERIF_TIME"] = str(tsec)
    t0 = time.time()
    r = subprocess.run(["python3", os.path.join(VERIF, "tools", "check.py"), prop, "--tier", tier], env=env, stdout=subprocess.PIPE, stderr=subprocess.STDOUT, text=True)
    return r.returncode, r.stdout, time.time() - t0


def main():
    ap = argparse.ArgumentParser()
    ap.add_argument("--only")
    ap.add_argument("--prop")
    ap.add_argument("--tier", default="quick")
    ap.add_argument("--time", type=float, default=0)
    ap.add_argument("--seeded", action="store_true")
    ap.add_argument("--ideas", action="store_true", help="candidate slips implemented by sub-agents (mutants/ideas/<id>/patch.diff), no demonstration")
    ap.add_argument("--benign", action="store_true", help="behaviour-preserving changes (benign/<id>/patch.diff): every check must stay quiet")
    ap.add_argument("--keep", action="store_true")
    ap.add_argument("--stop-at-catch", action="store_true", help="run a change's checks in order and stop at the first one that catches it")
    ap.add_argument("--json")
    a = ap.parse_args()
    items = []
    if a.seeded:
        sd = os.path.join(VERIF, "seeded")
        for name in sorted(os.listdir(sd)):
            meta = os.path.join(sd, name, "meta.json")
            if os.path.exists(meta):
                m = json.load(open(meta))
                items.append({"id": name, "prop": m["property"], "patch": os.path.join(sd, name, "patch.diff"), "checks": m.get("checks", [m["property"]])})
    elif a.ideas:
        sd = os.path.join(VERIF, "mutants", "ideas")
        for name in sorted(os.listdir(sd)):
            meta = os.path.join(sd, name, "meta.json")
            if os.path.exists(meta):
                m = json.load(open(meta))
                items.append({"id": name, "prop": m["property"], "patch": os.path.join(sd, name, "patch.diff"), "checks": m["checks"]})
    elif a.benign:
        sd = os.path.join(VERIF, "benign")
        for name in sorted(os.listdir(sd)):
            meta = os.path.join(sd, name, "meta.json")
            if os.path.exists(meta):
                m = json.load(open(meta))
                items.append({"id": name, "prop": m["property"], "patch": os.path.join(sd, name, "patch.diff"), "checks": m["checks"]})
    else:
        from catalog import MUTANTS
        for m in MUTANTS:
            items.append(m)
    results = []
    for m in items:
        if a.only and a.only not in m["id"]:
            continue
        if a.prop and a.prop != m["prop"] and a.prop not in m.get("checks", []):
            continue
        scratch = make_scratch(m["id"].replace("/", "_"))
        try:
            if "patch" in m:
                subprocess.check_call(["patch", "-s", "-p1", "-d", scratch, "-i", m["patch"]])
            else:
                for (f, old, new) in m["edits"]:
                    p = os.path.join(scratch, f)
                    s = open(p).read()
                    if s.count(old) != 1:
                        print("MUTANT %s: pattern matches %d times in %s (catalog out of date)" % (m["id"], s.count(old), f))
                        raise SystemExit(2)
                    open(p, "w").write(s.replace(old, new))
            for prop in m.get("checks", [m["prop"]]):
                rc, out, dt = run_check(scratch, prop, a.tier, a.time)
                viol = [l for l in out.splitlines() if l.startswith("VIOLATION") or l.startswith("  C")]
                status = "CAUGHT" if rc == 1 else ("INFRA" if rc == 2 else "MISSED")
                if a.benign:
                    status = "QUIET" if rc == 0 else ("INFRA" if rc == 2 else "ALARM")
                print("%-7s %-44s %s %5.1fs  %s" % (status, m["id"], prop, dt, (viol[0].strip()[:150] if viol else "")))
                if rc == 2:
                    print(out[-1500:])
                sys.stdout.flush()
                results.append({"id": m["id"], "check": prop, "status": status, "detail": viol[0].strip() if viol else "", "wall_s": round(dt, 1)})
                if a.stop_at_catch and status == "CAUGHT":
                    break
        finally:
            if not a.keep:
                shutil.rmtree(scratch, ignore_errors=True)
    if a.json:
        json.dump(results, open(a.json, "w"), indent=1)
    if a.benign:
        loud = [r for r in results if r["status"] != "QUIET"]
        print("%d benign runs, %d quiet, %d not quiet" % (len(results), len(results) - len(loud), len(loud)))
        return 0
    missed = [r for r in results if r["status"] != "CAUGHT"]
    print("%d mutants run, %d caught, %d not caught" % (len(results), len(results) - len(missed), len(missed)))
    return 0


if __name__ == "__main__":
    sys.exit(main())
