#!/usr/bin/env python3
"""Regenerate /verif/MANIFEST.json from tools/props.py (claimed checks) and the fixed not-applicable list."""
import json, os, sys
VERIF = os.path.dirname(os.path.dirname(os.path.abspath(__file__)))
sys.path.insert(0, os.path.join(VERIF, "tools"))
from props import PROPS

LEVEL_TEXT = {
    "C01": ("seeded search over thread interleavings of generated lock/trylock/unlock scripts on the real PMutex and PSpinLock code (c11, sync and sim models), preemptible before every atomic, fence, volatile access and pthread call; oracles: shadow holder count, happens-before race detector on the protected data, trylock rules, completion",
            "pthread primitives are simulated (POSIX semantics trusted); sampling, not enumeration; sync model judged with an x86 view of volatile accesses",
            "deterministic simulation: seeded schedule search with happens-before race detection"),
    "C02": ("seeded search over interleavings of reader/writer lock, trylock and unlock scripts and of a readers-only barrier scenario on both PRWLock implementations, with spurious condition-variable wake-ups and native reader/writer preference as injected faults; oracles: shadow reader/writer counts, trylock grantability, race detector on protected data, deadlock = empty enabled set",
            "pthread mutex/cond/rwlock are simulated (POSIX semantics trusted, spurious wake-ups legal); sampling, not enumeration",
            "deterministic simulation: seeded schedule search with spurious wake-up injection and deadlock detection"),
    "C03": ("seeded search over interleavings of bounded-buffer, gate and single-waiter workloads on the real PCondVariable/PMutex code with spurious wake-ups and extra released waiters as faults; oracles: owner-on-return, waiter-set shrink after signal, empty waiter set after broadcast, item conservation, completion",
            "pthread_cond_* and pthread_mutex_* are simulated (POSIX semantics trusted); sampling, not enumeration",
            "deterministic simulation: seeded schedule search with spurious wake-up injection"),
    "C04": ("seeded search over interleavings inside and between p_atomic_* operations of all three models; recorded invoke/return histories are checked for linearizability against wrapping C word arithmetic (Wing-Gong search); message passing is judged by the happens-before detector from the declared memory orders and store buffering (Dekker) under an x86-TSO store-buffer model",
            "builtins are executed by the simulator's own __tsan runtime; TSO model covers explicit atomic stores of the c11 build only; sampling, not enumeration",
            "deterministic simulation: seeded schedule search + linearizability checking against a sequential word model + TSO store-buffer fault injection"),
    "C05": ("seeded search over start/exit/join/ref/unref orders and TLS first-use races of generated thread programs on the real puthread code (c11, sync, sim atomics); oracles: join-after-finish, exit code, visibility after join (race detector), handle block freed exactly once and only after the last reference (tracking allocator + heap shadow), per-thread TLS model with exact destructor counts",
            "pthread_create/join/exit/key_* are simulated (POSIX semantics trusted); sampling, not enumeration",
            "deterministic simulation: seeded schedule search with reference model of handle references and TLS"),
    "C06": ("seeded search over histories of new(OPEN|CREATE)/acquire/release/take_ownership/free on named semaphores spread over simulated processes and threads, with process kills before/after every IPC system call and EINTR as injected faults; oracle: epoch/counter reference model, documented recovery sequence, namespace left-overs",
            "POSIX semaphore name space and process model are simulated (Linux/glibc semantics, conformance-tested against the real kernel for the listed facts); simulated processes share one address space",
            "deterministic simulation: seeded history/schedule search with crash (SIGKILL) injection against a reference model"),
    "C07": ("seeded search over histories of new/lock/unlock/write/read/take_ownership/free on named shared memory in several simulated processes (real memfd-backed mappings), concurrent first-time creators, process kills at every IPC call; oracle: byte model across mappings, lock shadow count, size rules, namespace left-overs after owner free / documented clean-up",
            "shm/sem name spaces, descriptors and process model are simulated; mappings are real (memfd); simulated processes share one address space",
            "deterministic simulation: seeded history/schedule search with crash injection against a reference model"),
    "C08": ("seeded search over operation sequences, handle size arguments and interleavings on PShmBuffer over the real PShm/PSemaphore code; sequential histories are compared with a FIFO byte-queue model after every call, concurrent ones by linearizability search; ASan (segment tail poisoned, exact-size caller buffers) decides memory safety",
            "as C07; linearizability search bounded (inconclusive beyond the node budget, never a violation)",
            "deterministic simulation: seeded history/schedule search, linearizability against a FIFO model, ASan-instrumented library"),
    "C09": ("seeded search over payload sizes, chunkings, blocking modes and timings on TCP and UDP sockets of a simulated network with EINTR / EAGAIN-after-poll / short transfer / delay / reset / loss / duplication / reordering injected into the system calls the library makes; oracle: position-coded stream prefix, datagram identity and source address, error-class rules, no SIGPIPE",
            "the whole socket layer is simulated (Linux semantics, conformance-tested for the listed facts)",
            "deterministic simulation: seeded fault injection into a simulated socket layer with stream/datagram integrity oracles"),
    "C10": ("seeded search over call histories on one or two sockets against a scripted peer on a simulated clock; oracle: socket flag state machine, exact simulated elapsed time for timeouts, no system call after close, FD_CLOEXEC in the simulated descriptor table",
            "socket layer and clock are simulated; timeouts are compared on the simulated clock (exact)",
            "deterministic simulation: seeded history search on a simulated clock and socket layer against a state-machine model"),
    "C18": ("for every allocating scenario the k-th allocation (or k-th and all later) is made to fail for every k (thorough) or a seeded sample covering every scenario and every small k (quick); oracle: no crash / sanitizer report, failure value, outstanding-block set back to the baseline after clean-up, pre-existing objects unchanged",
            "allocator is the public p_mem_set_vtable seam; ASan/UBSan-instrumented library; scenarios are representative call sequences, not all programs",
            "deterministic simulation: systematic allocation-failure injection (fault enumeration along the allocation index)"),
    "C19": ("EINTR is injected at the k-th invocation of every interruptible system call of each blocking scenario (systematically and in pairs) and as signal storms at random simulated instants; oracle: same outcome as the undisturbed run, sleep returns 0 only after the requested simulated time",
            "signals are modelled by their only observable effect on a blocked call (EINTR / remaining time); kernel calls are simulated",
            "deterministic simulation: systematic EINTR injection on a simulated clock (fault enumeration)"),
    "C20": ("seeded search over create/use/free programs across all modules with failing allocations and system calls; oracle at the end of every program: allocator outstanding set, simulated descriptor table, VM table and IPC name space all back at the baseline, every descriptor closed exactly once",
            "descriptor, VM and IPC tables are the simulator's; fopen/opendir/dlopen are real but counted",
            "deterministic simulation: seeded program generation with fault injection and resource-table accounting"),
}
LEVEL_CAT = {"C18": "fault_enumeration", "C19": "fault_enumeration"}

NA = [
    ("C11", "pure function of the bytes fed in and their chunking: no schedule, clock, fault or interleaving in the statement for a simulator to decide"),
    ("C12", "sequential container driven by one caller: the statement has no fault or interleaving to search"),
    ("C13", "shape invariant of the same sequential structure: pure input/history property"),
    ("C14", "exactly-once over sequential histories without any environment choice (its observable consequence in allocator accounting is covered under C20)"),
    ("C15", "pure input/history property of sequential containers; nothing for a simulator to decide"),
    ("C16", "quantified over file contents only: every fault of the one stream it reads is the fault-free read of another byte string, so only input generation would remain"),
    ("C17", "pure conversions checked against the platform's own functions: no nondeterminism involved"),
]
PENDING_REASON = "check not built yet in this round (simulation harness planned in DESIGN.md section 4); not claimed until it is committed"

def main():
    checks = []
    for pid in sorted(PROPS):
        text, note, tech = LEVEL_TEXT[pid]
        checks.append({
            "property_id": pid,
            "quick_cmd": "python3 tools/check.py %s --tier quick" % pid,
            "thorough_cmd": "python3 tools/check.py %s --tier thorough" % pid,
            "evidence_file": "/verif/evidence/%s.json" % pid,
            "replay_cmd_template": "python3 tools/check.py --replay {path}",
            "engine": "plibsys-sim",
            "level_claimed": {"category": PROPS[pid]["level"], "text": text, "design_ref": "DESIGN.md section 4 (%s)" % pid},
            "level_note": note,
            "technique": tech,
        })
    na = [{"property_id": p, "reason": r} for p, r in NA]
    for pid in ["C%02d" % i for i in range(1, 21)]:
        if pid not in PROPS and pid not in [p for p, _ in NA]:
            na.append({"property_id": pid, "reason": PENDING_REASON})
    na.sort(key=lambda x: x["property_id"])
    man = {
        "version": 1,
        "setup_cmd": "make -C /verif setup",
        "hooks": {
            "guard": "PLIBSYS_VERIF",
            "enable": "none needed: the library sources are compiled unmodified from /repo and their external references (pthread, libc, system calls) are retargeted to the simulator with objcopy --redefine-syms; compiler builtins and volatile accesses reach the simulator through its own implementation of the __tsan_* ABI",
            "baseline_off_cmd": "cmake -G Ninja -S /repo -B /repo/_build && cmake --build /repo/_build && ctest --test-dir /repo/_build -j8 --timeout 900",
            "source_commits": [],
            "add_only": True,
        },
        "engines": [{"name": "plibsys-sim", "path": "/verif/sim", "serves_properties": sorted(PROPS),
                     "kind_free_text": "deterministic simulator: cooperative fibers, seeded scheduler, own __tsan runtime (atomics, happens-before, heap shadow), simulated pthread layer and kernel, tracking allocator, forked minimiser, replay"}],
        "checks": checks,
        "not_applicable": na,
        "notes": "Technique family: deterministic simulation with fault injection. See DESIGN.md. Known findings: known_findings.txt. Sensitivity: mutants/catalog.py, seeded/.",
    }
    with open(os.path.join(VERIF, "MANIFEST.json"), "w") as f:
        json.dump(man, f, indent=1)
        f.write("\n")

if __name__ == "__main__":
    main()
