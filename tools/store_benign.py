#!/usr/bin/env python3
"""Store behaviour-preserving changes produced by a sub-agent (worktree/benign/N.diff) under /verif/benign/<prop>-<tag>-N/.
Each is first checked in the worktree: applies on the clean tree, library builds, the 28 ctest programs pass.

  store_benign.py <property> <worktree> <round-tag>
"""
import json, os, re, shutil, subprocess, sys
VERIF = os.path.dirname(os.path.dirname(os.path.abspath(__file__)))
RELATED = [
    (r"psocket|psysclose|psocketaddress", ["C09", "C10", "C19", "C18", "C20"]),
    (r"pshmbuffer", ["C08", "C18", "C20"]),
    (r"pshm-|pipc", ["C07", "C08", "C06", "C18", "C19", "C20"]),
    (r"psemaphore", ["C06", "C07", "C08", "C18", "C19", "C20"]),
    (r"puthread", ["C05", "C18", "C19", "C20"]),
    (r"pmutex", ["C01", "C03", "C18"]),
    (r"pspinlock", ["C01", "C05"]),
    (r"patomic", ["C04", "C01", "C05"]),
    (r"prwlock", ["C02", "C18", "C20"]),
    (r"pcondvariable", ["C03", "C02", "C18"]),
    (r"pmem|perror|pstring|plist|phashtable|ptree|pinifile|pdir|plibraryloader|pcryptohash|ptimeprofiler|pfile", ["C18", "C20"]),
]
def sh(cmd, cwd):
    r = subprocess.run(cmd, shell=True, cwd=cwd, stdout=subprocess.PIPE, stderr=subprocess.STDOUT, text=True)
    return r.returncode, r.stdout
def main():
    prop, wt, tag = sys.argv[1:4]
    bdir = os.path.join(wt, "benign")
    for f in sorted(os.listdir(bdir)):
        if not f.endswith(".diff"): continue
        n = f[:-5]
        sh("git checkout -- src", wt)
        rc, out = sh("git apply benign/%s" % f, wt)
        if rc: print("%s %s: does not apply: %s" % (prop, f, out[-200:])); continue
        rc, out = sh("cmake -G Ninja -S . -B _build -DCMAKE_BUILD_TYPE=RelWithDebInfo > /dev/null && cmake --build _build 2>&1 | tail -3 && ctest --test-dir _build -j8 --timeout 900 2>&1 | tail -5", wt)
        ok = "100% tests passed" in out
        sh("git checkout -- src", wt)
        if not ok: print("%s %s: build or test-suite failed: %s" % (prop, f, out[-300:])); continue
        patch = open(os.path.join(bdir, f)).read()
        files = re.findall(r"^\+\+\+ b/(\S+)", patch, re.M)
        checks = [prop]
        for pat, cs in RELATED:
            if any(re.search(pat, x) for x in files):
                for c in cs:
                    if c not in checks: checks.append(c)
        ident = "%s-%s-%s" % (prop, tag, n)
        dst = os.path.join(VERIF, "benign", ident)
        os.makedirs(dst, exist_ok=True)
        shutil.copy(os.path.join(bdir, f), os.path.join(dst, "patch.diff"))
        readme = os.path.join(bdir, "README.md")
        if os.path.exists(readme): shutil.copy(readme, os.path.join(dst, "README.md"))
        json.dump({"id": ident, "property": prop, "checks": checks, "files": files, "origin": "independent sub-agent asked for a behaviour-preserving change; builds and passes the 28 tests (confirmed)",
                   "repo_commit": subprocess.run(["git", "-C", wt, "rev-parse", "--short", "HEAD"], stdout=subprocess.PIPE, text=True).stdout.strip()}, open(os.path.join(dst, "meta.json"), "w"), indent=1)
        print("stored %s (checks %s)" % (ident, ",".join(checks)))
if __name__ == "__main__":
    main()
