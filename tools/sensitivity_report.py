#!/usr/bin/env python3
"""Write the sensitivity tables of DESIGN.md section 12 from sensitivity/results_*.json (tools/mutants.py --json)."""
import json, os, sys
VERIF = os.path.dirname(os.path.dirname(os.path.abspath(__file__)))
def load(n):
    p = os.path.join(VERIF, "sensitivity", n)
    return json.load(open(p)) if os.path.exists(p) else []
mut, seeded = load("results_mutants.json"), load("results_seeded.json")
out = []
def table(rows, title, extra=None):
    out.append("### %s\n" % title)
    out.append("| change | check | result | how it was caught |")
    out.append("|--------|-------|--------|-------------------|")
    for r in rows:
        det = r["detail"]
        # "C01 [T.c11.posix] class key=...: msg (minimised ..)" -> keep variant, class, key
        short = det.split(": ")[0][:110] if det else ""
        out.append("| %s | %s | %s | %s |" % (r["id"], r["check"], r["status"].lower(), short.replace("|", "/")))
    out.append("")
caught = sum(1 for r in mut if r["status"] == "CAUGHT")
out.append("Hand-written mutants (`mutants/catalog.py`, each compiles; run with the quick tier at 6-8 s per check): %d runs, %d caught, %d not caught.\n" % (len(mut), caught, len(mut) - caught))
table(mut, "Mutants")
sc = sum(1 for r in seeded if r["status"] == "CAUGHT")
out.append("Changes seeded by independent sub-agents (`seeded/<id>/`; each confirmed by me: the 28 tests pass with it, its demonstration fails with it and passes without): %d runs, %d caught, %d not caught.\n" % (len(seeded), sc, len(seeded) - sc))
rows = []
for r in seeded:
    meta = os.path.join(VERIF, "seeded", r["id"], "meta.json")
    needs = json.load(open(meta)).get("needs_to_manifest", "") if os.path.exists(meta) else ""
    r = dict(r); r["needs"] = needs
    rows.append(r)
out.append("### Seeded changes\n")
out.append("| change | needs, in order to manifest | check | result | how it was caught |")
out.append("|--------|------------------------------|-------|--------|-------------------|")
for r in rows:
    det = r["detail"]; short = det.split(": ")[0][:110] if det else ""
    out.append("| %s | %s | %s | %s | %s |" % (r["id"], r["needs"].replace("|", "/"), r["check"], r["status"].lower(), short.replace("|", "/")))
out.append("")
ideas = load("results_ideas.json")
if ideas:
    byid = {}
    for r in ideas: byid.setdefault(r["id"], []).append(r)
    ncaught = sum(1 for v in byid.values() if any(x["status"] == "CAUGHT" for x in v))
    out.append("Candidate slips listed by the round-5 sub-agents and implemented by round-6 sub-agents (`mutants/ideas/<id>/`; each builds and passes the 28 tests, confirmed; no demonstration program, a miss is judged by hand in `sensitivity/ideas_judged.md`): %d changes, %d caught by one of their related checks, %d not caught.\n" % (len(byid), ncaught, len(byid) - ncaught))
    out.append("### Candidate slips\n")
    out.append("| change | caught by | checks that stayed quiet | how it was caught |")
    out.append("|--------|-----------|--------------------------|-------------------|")
    for i in sorted(byid):
        v = byid[i]
        c = [x for x in v if x["status"] == "CAUGHT"]
        q = [x["check"] for x in v if x["status"] != "CAUGHT"]
        det = c[0]["detail"].split(": ")[0][:100].replace("|", "/") if c else ""
        out.append("| %s | %s | %s | %s |" % (i, ", ".join(x["check"] for x in c) or "**none**", ", ".join(q), det))
    out.append("")
    j = os.path.join(VERIF, "sensitivity", "ideas_judged.md")
    if os.path.exists(j): out.append(open(j).read())
ben = load("results_benign.json") + load("results_benign_r2.json") + load("results_benign_r3.json")
if ben:
    nq = sum(1 for r in ben if r["status"] == "QUIET")
    out.append("Behaviour-preserving changes (`benign/<id>/`, 99 patches from three rounds of sub-agents; every related check is run on each): %d check runs, %d quiet, %d not quiet.\n" % (len(ben), nq, len(ben) - nq))
notes = os.path.join(VERIF, "sensitivity", "notes.md")
if os.path.exists(notes):
    out.append(open(notes).read())
p = os.path.join(VERIF, "DESIGN.md")
s = open(p).read()
a, b = s.index("<!-- SENSITIVITY-TABLE-BEGIN -->"), s.index("<!-- SENSITIVITY-TABLE-END -->")
s = s[:a] + "<!-- SENSITIVITY-TABLE-BEGIN -->\n" + "\n".join(out) + "\n" + s[b:]
open(p, "w").write(s)
print("section 12 updated: %d mutant runs, %d seeded runs" % (len(mut), len(seeded)))
