// C04 — p_atomic_*: indivisibility (linearizability against C word arithmetic), barriers (message passing
// judged by the happens-before detector; store buffering under an x86-TSO store-buffer model).
#include "common.h"
#include "linz.h"
#include <limits.h>
#include <string.h>

namespace sim { extern bool g_tso_mode; void tso_reset(); void tso_flush_all(); }

using namespace hx;

namespace {

enum Kind { I_GET, I_SET, I_INC, I_DEC_TEST, I_CAS, I_ADD, I_AND, I_OR, I_XOR, P_GET, P_SET, P_CAS, P_ADD, P_AND, P_OR, P_XOR, K_COUNT };
const char *kind_name[] = {"iget", "iset", "iinc", "idec", "icas", "iadd", "iand", "ior", "ixor", "pget", "pset", "pcas", "padd", "pand", "por", "pxor"};

struct Shared {
  alignas(8) volatile pint iw;
  alignas(8) volatile psize pw;
  alignas(8) long payload;
  alignas(8) volatile pint x, y;
  int r1 = -1, r2 = -1;
  std::vector<linz::Op> hist;
};
Shared *S;

struct WordModel {
  uint32_t i; uint64_t p;
  uint64_t hash() const { return (uint64_t)i * 0x100000001b3ULL ^ (p + 0x51ed2701) * 0xff51afd7ed558ccdULL; }
  bool apply(const linz::Op &o) {
    uint32_t a32 = (uint32_t)o.a, b32 = (uint32_t)o.b;
    switch (o.kind) {
    case I_GET: return (uint32_t)o.result == i;
    case I_SET: i = a32; return true;
    case I_INC: i = i + 1; return true;
    case I_DEC_TEST: i = i - 1; return (o.result != 0) == (i == 0);
    case I_CAS: if (i == a32) { i = b32; return o.result != 0; } return o.result == 0;
    case I_ADD: { uint32_t old = i; i = i + a32; return (uint32_t)o.result == old; }
    case I_AND: { uint32_t old = i; i = i & a32; return (uint32_t)o.result == old; }
    case I_OR: { uint32_t old = i; i = i | a32; return (uint32_t)o.result == old; }
    case I_XOR: { uint32_t old = i; i = i ^ a32; return (uint32_t)o.result == old; }
    case P_GET: return o.result == p;
    case P_SET: p = o.a; return true;
    case P_CAS: if (p == o.a) { p = o.b; return o.result != 0; } return o.result == 0;
    case P_ADD: { uint64_t old = p; p = p + o.a; return o.result == old; }
    case P_AND: { uint64_t old = p; p = p & o.a; return o.result == old; }
    case P_OR: { uint64_t old = p; p = p | o.a; return o.result == old; }
    case P_XOR: { uint64_t old = p; p = p ^ o.a; return o.result == old; }
    }
    return false;
  }
};

uint64_t do_op(int kind, uint64_t a, uint64_t b) {
  linz::Op o;
  o.task = cur()->id; o.kind = kind; o.a = a; o.b = b;
  uint64_t r = 0;
  {
    ApiScope as(kind_name[kind], kind >= P_GET ? 1 : 0, false);
    o.inv = now_seq();
    switch (kind) {
    case I_GET: r = (uint32_t)p_atomic_int_get(&S->iw); break;
    case I_SET: p_atomic_int_set(&S->iw, (pint)a); break;
    case I_INC: p_atomic_int_inc(&S->iw); break;
    case I_DEC_TEST: r = p_atomic_int_dec_and_test(&S->iw) ? 1 : 0; break;
    case I_CAS: r = p_atomic_int_compare_and_exchange(&S->iw, (pint)a, (pint)b) ? 1 : 0; break;
    case I_ADD: r = (uint32_t)p_atomic_int_add(&S->iw, (pint)a); break;
    case I_AND: r = p_atomic_int_and((volatile puint *)&S->iw, (puint)a); break;
    case I_OR: r = p_atomic_int_or((volatile puint *)&S->iw, (puint)a); break;
    case I_XOR: r = p_atomic_int_xor((volatile puint *)&S->iw, (puint)a); break;
    case P_GET: r = (uint64_t)p_atomic_pointer_get(&S->pw); break;
    case P_SET: p_atomic_pointer_set(&S->pw, (ppointer)a); break;
    case P_CAS: r = p_atomic_pointer_compare_and_exchange(&S->pw, (ppointer)a, (ppointer)b) ? 1 : 0; break;
    case P_ADD: r = (uint64_t)p_atomic_pointer_add(&S->pw, (pssize)a); break;
    case P_AND: r = p_atomic_pointer_and(&S->pw, (psize)a); break;
    case P_OR: r = p_atomic_pointer_or(&S->pw, (psize)a); break;
    case P_XOR: r = p_atomic_pointer_xor(&S->pw, (psize)a); break;
    }
  }
  o.ret = now_seq();
  o.result = r;
  order_ev(kind >= P_GET ? 1 : 0, kind, o.task);
  S->hist.push_back(o);
  return r;
}

uint64_t operand32() {
  static const uint32_t b[] = {0, 1, 0xFFFFFFFFu, 0x80000000u, 0x7FFFFFFFu, 2, 0xFFFFFFFEu, 0x80000001u, 0x55555555u, 0xAAAAAAAAu};
  uint32_t r = gen(14);
  if (r < 10) return b[r];
  return gen(0xFFFFFFFFu);
}
uint64_t operand64() {
  static const uint64_t b[] = {0, 1, ~0ULL, 0x8000000000000000ULL, 0x7FFFFFFFFFFFFFFFULL, 0xFFFFFFFFULL, 0x100000000ULL, 0x80000000ULL, 0x7FFFFFFFULL, 0xFFFFFFFF00000000ULL};
  uint32_t r = gen(14);
  if (r < 10) return b[r];
  return ((uint64_t)gen(0xFFFFFFFFu) << 32) | gen(0xFFFFFFFFu);
}

struct PlannedOp { int kind; uint64_t a, b; };

void check_history(uint32_t i0, uint64_t p0) {
  // final plain reads by root (ordered after everything by the join edge) are appended as gets
  linz::Op fi; fi.task = 0; fi.kind = I_GET; fi.inv = fi.ret = now_seq() + 1; fi.result = (uint32_t)S->iw;
  linz::Op fp; fp.task = 0; fp.kind = P_GET; fp.inv = fp.ret = now_seq() + 2; fp.result = (uint64_t)S->pw;
  // linearizability is compositional: check each word on its own (smaller search)
  for (int w = 0; w < 2; w++) {
    std::vector<linz::Op> h;
    for (auto &o : S->hist) if ((o.kind >= P_GET) == (w == 1)) h.push_back(o);
    h.push_back(w ? fp : fi);
    if (h.size() > 40) { probe("lin.history_too_long"); continue; }
    WordModel m{i0, p0};
    linz::Verdict v = linz::check(h, m, 400000);
    if (v == linz::LIN_INCONCLUSIVE) { probe("lin.inconclusive"); continue; }
    if (v == linz::LIN_VIOLATION) {
      std::string s;
      for (auto &o : h) { char b[96]; snprintf(b, sizeof b, "t%d:%s(%llx,%llx)=%llx@[%llu,%llu] ", o.task, kind_name[o.kind], (unsigned long long)o.a, (unsigned long long)o.b, (unsigned long long)o.result, (unsigned long long)o.inv, (unsigned long long)o.ret); s += b; }
      violate("not_linearizable", w ? "pointer" : "int", "no sequential order of the atomic operations explains the results: init=%llx %s", (unsigned long long)(w ? p0 : i0), s.substr(0, 800).c_str());
    }
    if (h.size() >= 6) probe("lin.checked_6plus");
  }
}

// -------- workload modes
void mode_lin(int mode) {
  int tier = cfg().tier;
  int nt = (int)gen_range(1, tier ? 5 : 4);
  uint32_t i0 = 0; uint64_t p0 = 0;
  std::vector<std::vector<PlannedOp>> plan(nt);
  if (mode == 0) {          // mixed, boundary operands
    i0 = (uint32_t)operand32(); p0 = operand64();
    bool ints = gen(3) != 0, ptrs = gen(3) == 0 || !ints;
    for (int t = 0; t < nt; t++) {
      int n = (int)gen_range(1, nt == 1 ? 10 : (tier ? 7 : 5));
      for (int k = 0; k < n; k++) {
        PlannedOp o;
        bool p = ptrs && (!ints || gen(2));
        o.kind = p ? P_GET + (int)gen(7) : (int)gen(9);
        o.a = p ? operand64() : operand32();
        o.b = p ? operand64() : operand32();
        // make CAS succeed sometimes: expected value drawn from a small pool including the initial value
        if (o.kind == I_CAS && gen(2)) o.a = i0;
        if (o.kind == P_CAS && gen(2)) o.a = p0;
        plan[t].push_back(o);
      }
    }
  } else if (mode == 1) {   // ticket
    i0 = (uint32_t)operand32();
    for (int t = 0; t < nt; t++) { int n = (int)gen_range(1, 5); for (int k = 0; k < n; k++) plan[t].push_back({gen(2) ? I_ADD : I_INC, 1, 0}); }
  } else if (mode == 2) {   // reference count: exactly one dec_and_test reaches zero
    int total = 0;
    for (int t = 0; t < nt; t++) { int n = (int)gen_range(1, 4); total += n; for (int k = 0; k < n; k++) plan[t].push_back({I_DEC_TEST, 0, 0}); }
    i0 = (uint32_t)total - gen(2);    // sometimes one short: the zero crossing is not the last decrement
  }
  describe("mode=%s tasks=%d init=(%x,%llx) ops=", mode == 0 ? "mixed" : mode == 1 ? "ticket" : "refcount", nt, i0, (unsigned long long)p0);
  for (int t = 0; t < nt; t++) { describe("["); for (auto &o : plan[t]) describe("%s(%llx,%llx) ", kind_name[o.kind], (unsigned long long)o.a, (unsigned long long)o.b); describe("]"); }
  S->iw = (pint)i0; S->pw = p0;
  int zero_hits = 0;
  for (int t = 0; t < nt; t++) spawn(0, [t, &plan, &zero_hits, mode]() {
    for (auto &o : plan[t]) { uint64_t r = do_op(o.kind, o.a, o.b); if (mode == 2 && r) zero_hits++; if (gen(4) == 0) yield_point(); }
  });
  wait_all_others();
  if (nt == 1) probe("lin.single_threaded");
  check_history(i0, p0);
  if (mode == 2 && zero_hits > 1) violate("dec_and_test_multiple_true", "int", "%d decrements reported reaching zero", zero_hits);
}

void mode_cas_inc() {
  int nt = (int)gen_range(2, 4);
  bool ptr = gen(2);
  uint32_t i0 = (uint32_t)operand32(); uint64_t p0 = operand64();
  S->iw = (pint)i0; S->pw = p0;
  int succ = 0;
  describe("mode=casinc tasks=%d %s", nt, ptr ? "ptr" : "int");
  for (int t = 0; t < nt; t++) spawn(0, [ptr, &succ]() {
    for (int round = 0; round < 2; round++) {
      for (int attempt = 0; attempt < 6; attempt++) {
        uint64_t v = do_op(ptr ? P_GET : I_GET, 0, 0);
        uint64_t nv = ptr ? v + 1 : (uint32_t)(v + 1);
        if (do_op(ptr ? P_CAS : I_CAS, v, nv)) { succ++; break; }
        probe("casinc.retry");
      }
    }
  });
  wait_all_others();
  check_history(i0, p0);
  uint64_t fin = ptr ? (uint64_t)S->pw : (uint32_t)S->iw;
  uint64_t want = ptr ? p0 + succ : (uint32_t)(i0 + succ);
  if (fin != want) violate("cas_increment_lost", ptr ? "pointer" : "int", "%d successful CAS increments but the word moved from %llx to %llx", succ, (unsigned long long)(ptr ? p0 : i0), (unsigned long long)fin);
}

void mode_mp() {
  // message passing: plain payload published through an atomic flag; the detector decides visibility
  int pub = (int)gen(7), obs = (int)gen(4);
  int nreaders = (int)gen_range(1, 2);
  S->iw = 0; S->pw = 0; S->payload = 0;
  describe("mode=mp pub=%d obs=%d readers=%d", pub, obs, nreaders);
  spawn(0, [pub]() {
    SIM_WRITE(S->payload);
    S->payload = 4242;
    switch (pub) {
    case 0: do_op(I_SET, 1, 0); break;
    case 1: do_op(I_INC, 0, 0); break;
    case 2: do_op(I_CAS, 0, 1); break;
    case 3: do_op(I_ADD, 1, 0); break;
    case 4: do_op(I_OR, 1, 0); break;
    case 5: do_op(P_SET, 1, 0); break;
    default: do_op(P_CAS, 0, 1); break;
    }
  });
  bool ptr = pub >= 5;
  for (int r = 0; r < nreaders; r++) spawn(0, [obs, ptr]() {
    for (int poll = 0; poll < 8; poll++) {
      uint64_t v;
      if (ptr) v = obs == 0 ? do_op(P_GET, 0, 0) : obs == 1 ? do_op(P_ADD, 0, 0) : obs == 2 ? do_op(P_OR, 0, 0) : (do_op(P_CAS, 1, 1) ? 1 : 0);
      else v = obs == 0 ? do_op(I_GET, 0, 0) : obs == 1 ? do_op(I_ADD, 0, 0) : obs == 2 ? do_op(I_XOR, 0, 0) : (do_op(I_CAS, 1, 1) ? 1 : 0);
      if (v) {
        SIM_READ(S->payload);
        if (S->payload != 4242) violate("stale_payload", "mp", "flag observed but payload not visible");
        probe("mp.flag_observed");
        return;
      }
      spin_block(ptr ? (const void *)&S->pw : (const void *)&S->iw);
    }
  });
  wait_all_others();
}

void mode_dekker() {
  // store buffering: set then get on two words. set/get are documented as full barriers: (0,0) is forbidden.
  bool ptr = false;
  S->x = 0; S->y = 0; S->r1 = S->r2 = -1;
  sim::g_tso_mode = g_flavour_tsan && !strncmp(g_variant + 2, "c11", 3);
  describe("mode=dekker tso=%d", (int)sim::g_tso_mode);
  (void)ptr;
  spawn(0, []() {
    HX_API_V("iset", 0, false, p_atomic_int_set(&S->x, 1));
    S->r1 = HX_API("iget", 0, false, p_atomic_int_get(&S->y));
  });
  spawn(0, []() {
    HX_API_V("iset", 0, false, p_atomic_int_set(&S->y, 1));
    S->r2 = HX_API("iget", 0, false, p_atomic_int_get(&S->x));
  });
  wait_all_others();
  sim::tso_flush_all();
  if (S->r1 == 0 && S->r2 == 0) violate("store_buffering", "set_get", "both tasks read 0 after their own set: set/get do not act as full barriers");
  if (S->r1 == 1 && S->r2 == 1) probe("dekker.both_one");
  sim::g_tso_mode = false;
}

void root() {
  S = new Shared();
  sim::tso_reset();
  hooks().completion_required = true;
  lib_begin();
  uint32_t m = gen(10);
  if (m < 4) mode_lin(0);
  else if (m < 5) mode_lin(1);
  else if (m < 6) mode_lin(2);
  else if (m < 7) mode_cas_inc();
  else if (m < 9) mode_mp();
  else mode_dekker();
  lib_end();
  delete S;
  S = nullptr;
}

void configure(Config &c, Rng &) {
  swarm_schedule(c, 60);
  c.step_cap = 50000;
  c.p[ST_STOREBUF] = 0.3;
}

}  // namespace

SIM_HARNESS(atomics, "C04", root, configure)
