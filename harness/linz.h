// Wing & Gong style linearizability search over a recorded history, against a small sequential model.
// Histories are short (<= 40 calls); search is memoised on (set of linearized calls, model state) and
// aborted as inconclusive (never as a violation) beyond a node budget.
#pragma once
#include <stdint.h>
#include <vector>
#include <unordered_set>
#include <string>

namespace linz {

struct Op {
  int task = 0;
  uint64_t inv = 0, ret = 0;      // global event sequence numbers (ret = UINT64_MAX: never returned)
  int kind = 0;
  uint64_t a = 0, b = 0;
  uint64_t result = 0;
  int obj = 0;
  std::string data;               // payload (bytes written / bytes returned by a read)
};

enum Verdict { LIN_OK, LIN_VIOLATION, LIN_INCONCLUSIVE };

// Model: copyable; bool apply(const Op&) (false = result impossible in this state); uint64_t hash() const
template <class Model>
struct Checker {
  const std::vector<Op> &ops;
  uint64_t budget, nodes = 0;
  std::unordered_set<uint64_t> memo;
  std::vector<int> order;           // one witness linearization
  Checker(const std::vector<Op> &o, uint64_t b) : ops(o), budget(b) {}

  bool dfs(uint64_t done, const Model &m) {
    if (++nodes > budget) return false;
    size_t n = ops.size();
    if (done == (n == 64 ? ~0ULL : ((1ULL << n) - 1))) return true;
    uint64_t key = done * 0x9e3779b97f4a7c15ULL ^ m.hash();
    if (!memo.insert(key).second) return false;
    uint64_t min_ret = UINT64_MAX;
    for (size_t i = 0; i < n; i++) if (!(done >> i & 1) && ops[i].ret < min_ret) min_ret = ops[i].ret;
    for (size_t i = 0; i < n; i++) {
      if (done >> i & 1) continue;
      if (ops[i].inv > min_ret) continue;      // some pending op returned before this one was invoked
      Model m2 = m;
      if (!m2.apply(ops[i])) continue;
      order.push_back((int)i);
      if (dfs(done | (1ULL << i), m2)) return true;
      order.pop_back();
      if (nodes > budget) return false;
    }
    return false;
  }
};

template <class Model>
Verdict check(const std::vector<Op> &ops, const Model &init, uint64_t budget = 1000000, std::vector<int> *witness = nullptr) {
  if (ops.size() > 64) return LIN_INCONCLUSIVE;
  Checker<Model> c(ops, budget);
  bool ok = c.dfs(0, init);
  if (ok) { if (witness) *witness = c.order; return LIN_OK; }
  if (c.nodes > budget) return LIN_INCONCLUSIVE;
  return LIN_VIOLATION;
}

}  // namespace linz
