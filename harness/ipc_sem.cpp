// C06 — named semaphore: one system-wide counter per name, open/create/owner rules, crash recovery.
#include "common.h"
#include <set>
#include "../sim/kernel.h"
#include <string.h>
#include <deque>

using namespace hx;

namespace {

constexpr int MAXN = 2, MAXHND = 64;
// names are drawn per run from a pool: short, differing in one character, and long names that share a long prefix
const char *name_pool[] = {"vp-sem-alpha", "vp-sem-beta", "a", "b", "vp-sem-alphb",
                           "vp/sem/an-application-with-a-rather-long-common-prefix/queue-number-00000001",
                           "vp/sem/an-application-with-a-rather-long-common-prefix/queue-number-00000002",
                           "vp/sem/an-application-with-a-rather-long-common-prefix/queue-number-00000001 "};
const char *user_names[MAXN] = {"vp-sem-alpha", "vp-sem-beta"};
void pick_names() {
  uint32_t a = gen(8), b = gen(7);
  if (b >= a) b++;
  user_names[0] = name_pool[a]; user_names[1] = name_pool[b];
  if (strlen(user_names[0]) > 50 && strlen(user_names[1]) > 50) sim::probe("ipc.long_names_common_prefix");
}

struct Epoch { int name; int kobj; long init; long acq_ret = 0, rel_inv = 0, rel_ret = 0; int inflight = 0; bool unknown_init = false; int uncertain = 0; };
struct Hnd { PSemaphore *h = nullptr; int name = 0, epoch = -1, proc = 0, task = -1; bool owner = false, live = false; };

struct St {
  std::deque<Epoch> epochs;   // deque: references stay valid across push_back (tasks hold them over scheduling points)
  int bound[MAXN]; int latest[MAXN];
  std::string key[MAXN];
  Hnd hs[MAXHND]; int nh = 0;
  int acq_inflight[sim::MAXT];    // epoch a task is acquiring on (-1 none): a killed task may or may not have consumed its unit
  int token_owner = -1;           // lifecycle token (harness-level, invisible to the library)
  bool stop = false;              // a process was killed: survivors stop their scripts
  int kill_victim = -1;
  int nprocs = 1;
  bool kill_seen = false;
  bool concurrent_lifecycle = false;   // no serialisation of new/free/take_ownership: weaker, interleaving-proof oracles only
  int life_inflight[MAXN] = {0}; uint64_t life_epoch[MAXN] = {0};
};
St *S;

void token_take() {
  while (S->token_owner != -1) {
    Task *o = task(S->token_owner);
    if (!o || o->state == T_DEAD || o->state == T_FINISHED) { S->token_owner = -1; break; }
    block(B_HOLD, 0);
  }
  S->token_owner = cur()->id;
}
void token_give() {
  S->token_owner = -1;
  for (int i = 0; i < ntasks(); i++) { Task *t = task(i); if (t->state == T_BLOCKED && t->bkind == B_HOLD) wake(t); }
}

long available(const Epoch &e) { return e.init + e.rel_ret - e.acq_ret; }

void check_counter(int ei, const char *where) {
  Epoch &e = S->epochs[ei];
  if (e.inflight || e.unknown_init) return;
  int v = kern::sem_value(e.kobj);
  if (v != available(e))
    violate("counter_mismatch", where, "system-wide counter of '%s' is %d, model says %ld (init %ld, %ld releases, %ld acquires)", user_names[e.name], v, available(e), e.init, e.rel_ret, e.acq_ret);
}

void resync_after_kill() {
  S->kill_seen = true;
  for (int i = 0; i < ntasks(); i++) { Task *t = task(i); if (t->state == T_DEAD && kern::proc_dead(t->proc) && S->acq_inflight[i] >= 0) { S->epochs[S->acq_inflight[i]].uncertain++; S->acq_inflight[i] = -1; } }
  for (int n = 0; n < MAXN; n++) {
    if (S->key[n].empty()) { // the victim may have been the first to use the name: learn the key through a throw-away open later
      continue;
    }
    int ko = kern::sem_obj_of_name(S->key[n].c_str());
    if (ko < 0) { S->bound[n] = -1; continue; }
    int found = -1;
    for (size_t e = 0; e < S->epochs.size(); e++) if (S->epochs[e].kobj == ko) found = (int)e;
    if (found < 0) { Epoch e; e.name = n; e.kobj = ko; e.init = kern::sem_value(ko); e.unknown_init = true; S->epochs.push_back(e); found = (int)S->epochs.size() - 1; }
    S->bound[n] = found; S->latest[n] = found;
  }
  for (int h = 0; h < S->nh; h++) if (S->hs[h].live && kern::proc_dead(S->hs[h].proc)) S->hs[h].live = false;
}

void sync_if_killed() { if (!S->kill_seen && S->kill_victim > 0 && kern::proc_dead(S->kill_victim)) resync_after_kill(); }

int do_new(int name, int value, PSemaphoreAccessMode mode) {
  if (S->nh >= MAXHND) return -1;
  token_take();
  sync_if_killed();
  bool was_bound = S->bound[name] != -1;
  PError *err = nullptr;
  PSemaphore *h = HX_API("p_semaphore_new", name, false, p_semaphore_new(user_names[name], value, mode, &err));
  if (!h) {
    int native = err ? p_error_get_native_code(err) : 0;
    char key[96]; snprintf(key, sizeof key, "mode=%s,name_%s", mode == P_SEM_ACCESS_CREATE ? "CREATE" : "OPEN", was_bound ? "exists" : "absent");
    violate("new_failed", key, "p_semaphore_new(%s, %d, %s) returned NULL (native error %d) although the name %s", user_names[name], value,
            mode == P_SEM_ACCESS_CREATE ? "CREATE" : "OPEN", native, was_bound ? "exists" : "does not exist");
  }
  int kobj = kern::last_sem_obj();
  std::string key = kern::last_sem_name();
  if (S->key[name].empty()) S->key[name] = key;
  else if (S->key[name] != key) violate("name_key_changed", "p_semaphore_new", "one name mapped to two system keys");
  for (int n = 0; n < MAXN; n++) if (n != name && !S->key[n].empty() && S->key[n] == key) violate("names_collide", "p_semaphore_new", "two names share one system object");
  int ei;
  if (mode == P_SEM_ACCESS_CREATE || !was_bound) {
    if (was_bound && S->epochs[S->bound[name]].kobj == kobj) {
      // CREATE on an existing name must give exactly the requested value to this handle and later opens
      Epoch &old = S->epochs[S->bound[name]];
      (void)old;
    }
    Epoch e; e.name = name; e.kobj = kobj; e.init = value;
    S->epochs.push_back(e);
    ei = (int)S->epochs.size() - 1;
    S->bound[name] = ei; S->latest[name] = ei;
    if (kern::sem_value(kobj) != value)
      violate("create_wrong_value", mode == P_SEM_ACCESS_CREATE ? "CREATE" : "OPEN-fresh", "new(%s, %d) made or reset the counter to %d", user_names[name], value, kern::sem_value(kobj));
    if (was_bound) probe("sem.create_on_existing");
  } else {
    ei = S->bound[name];
    if (S->epochs[ei].kobj != kobj)
      violate("open_not_shared", "p_semaphore_new", "OPEN of existing name '%s' did not attach to the object the other handles use", user_names[name]);
    check_counter(ei, "open_ignores_value");
    probe("sem.open_existing");
  }
  Hnd &H = S->hs[S->nh];
  H.h = h; H.name = name; H.epoch = ei; H.proc = cur()->proc; H.task = cur()->id; H.owner = !was_bound || mode == P_SEM_ACCESS_CREATE; H.live = true;   // the handle that made the object owns it
  int idx = S->nh++;
  order_ev(name, 1, cur()->id);
  token_give();
  return idx;
}

void do_free(int hi) {
  Hnd &H = S->hs[hi];
  token_take();
  sync_if_killed();
  H.live = false;
  bool owner = H.owner;
  if (owner) S->bound[H.name] = -1;
  HX_API_V("p_semaphore_free", H.name, false, p_semaphore_free(H.h));
  if (!S->kill_seen) {
    bool kb = kern::sem_name_bound(S->key[H.name].c_str());
    if (owner && kb) violate("owner_free_left_name", "p_semaphore_free", "owner freed its handle but the name '%s' still exists in the system", user_names[H.name]);
    if (!owner && S->bound[H.name] != -1 && !kb) violate("non_owner_free_removed_name", "p_semaphore_free", "a non-owner free removed the name '%s' from the system", user_names[H.name]);
  }
  if (owner) probe("sem.owner_free");
  order_ev(H.name, 2, cur()->id);
  token_give();
}

// ---- concurrent life-cycle mode: calls on one name overlap freely. Oracles that hold for every interleaving:
//  * an object CREATED by a new(name, v, mode) call starts with exactly v;
//  * new() may only fail while another life-cycle call on the same name overlaps it, and in CREATE mode never;
//  * units are conserved per system object; nobody stays blocked in acquire while units are available.
int do_new_c(int name, int value, PSemaphoreAccessMode mode) {
  if (S->nh >= MAXHND) return -1;
  bool overlapped = S->life_inflight[name] > 0;
  S->life_inflight[name]++; uint64_t e0 = ++S->life_epoch[name];
  PError *err = nullptr;
  PSemaphore *h = HX_API("p_semaphore_new", name, false, p_semaphore_new(user_names[name], value, mode, &err));
  S->life_inflight[name]--;
  if (S->life_epoch[name] != e0) overlapped = true;
  S->life_epoch[name]++;
  if (!h) {
    if (!overlapped) violate("new_failed", "concurrent_mode,not_overlapped", "p_semaphore_new(%s, %d) returned NULL (native %d) with no other life-cycle call on that name in flight", user_names[name], value, err ? p_error_get_native_code(err) : 0);
    // CREATE mode succeeds whether or not the name exists - also when it appears or disappears while the call runs
    if (mode == P_SEM_ACCESS_CREATE) violate("new_failed", "concurrent_mode,mode=CREATE", "p_semaphore_new(%s, %d, CREATE) returned NULL (native %d) while other life-cycle calls on that name were in flight", user_names[name], value, err ? p_error_get_native_code(err) : 0);
    probe("sem.new_failed_under_overlap");
    return -1;
  }
  int kobj = kern::last_sem_obj();
  if (kern::last_sem_created() && kern::sem_init_value(kobj) != value)
    violate("create_wrong_value", "concurrent", "new(%s, %d, %s) created a new system-wide counter starting at %d", user_names[name], value, mode == P_SEM_ACCESS_CREATE ? "CREATE" : "OPEN", kern::sem_init_value(kobj));
  if (kern::last_sem_created()) probe("sem.concurrent_created");
  int ei = -1;
  for (size_t e = 0; e < S->epochs.size(); e++) if (S->epochs[e].kobj == kobj) ei = (int)e;
  if (ei < 0) { Epoch e; e.name = name; e.kobj = kobj; e.init = kern::sem_init_value(kobj); S->epochs.push_back(e); ei = (int)S->epochs.size() - 1; }
  S->latest[name] = ei;
  Hnd &H = S->hs[S->nh];
  H.h = h; H.name = name; H.epoch = ei; H.proc = cur()->proc; H.task = cur()->id; H.owner = false; H.live = true;
  return S->nh++;
}
void do_free_c(int hi) {
  Hnd &H = S->hs[hi];
  H.live = false;
  S->life_inflight[H.name]++; S->life_epoch[H.name]++;
  HX_API_V("p_semaphore_free", H.name, false, p_semaphore_free(H.h));
  S->life_inflight[H.name]--; S->life_epoch[H.name]++;
}

void do_acquire(int hi) {
  Hnd &H = S->hs[hi];
  Epoch &e = S->epochs[H.epoch];
  e.inflight++;
  S->acq_inflight[cur()->id] = H.epoch;
  PError *err = nullptr;
  pboolean r = HX_API("p_semaphore_acquire", H.name, false, p_semaphore_acquire(H.h, &err));
  S->acq_inflight[cur()->id] = -1;
  e.inflight--;
  if (!r) violate("acquire_failed", "p_semaphore_acquire", "acquire returned FALSE (native %d)", err ? p_error_get_native_code(err) : 0);
  e.acq_ret++;
  if (e.acq_ret > e.init + e.rel_inv && !e.unknown_init)
    violate("acquire_without_unit", "p_semaphore_acquire", "%ld acquires returned on '%s' but only %ld units ever existed (init %ld + %ld releases)", e.acq_ret, user_names[e.name], e.init + e.rel_inv, e.init, e.rel_inv);
  order_ev(H.name, 3, cur()->id);
}
void do_release(int hi) {
  Hnd &H = S->hs[hi];
  Epoch &e = S->epochs[H.epoch];
  e.inflight++; e.rel_inv++;
  PError *err = nullptr;
  bool alone0 = e.inflight == 1;                         // nobody else is inside a call on this counter
  long ops0 = e.acq_ret + e.rel_ret + e.rel_inv;
  int before = kern::sem_value(e.kobj);
  pboolean r = HX_API("p_semaphore_release", H.name, false, p_semaphore_release(H.h, &err));
  bool alone = alone0 && e.inflight == 1 && ops0 == e.acq_ret + e.rel_ret + e.rel_inv;
  e.inflight--;
  const int SEM_MAX = 2147483647;
  if (!r) {
    // a counter that holds the maximum cannot take another unit: FALSE is the honest answer then, and only then
    bool full = before == SEM_MAX || kern::sem_value(e.kobj) == SEM_MAX;
    if (!full) violate("release_failed", "p_semaphore_release", "release returned FALSE (native %d)", err ? p_error_get_native_code(err) : 0);
    e.rel_inv--;
    if (err) p_error_free(err);
    probe("sem.release_at_maximum");
    return;
  }
  if (alone && before == SEM_MAX) violate("release_reported_success_at_maximum", "p_semaphore_release", "release returned TRUE on a counter that already holds the maximum value");
  e.rel_ret++;
  order_ev(H.name, 4, cur()->id);
}

void script(int nops) {
  int me = cur()->id;
  for (int i = 0; i < nops && !S->stop; i++) {
    if (kern::proc_dead(cur()->proc)) return;
    // my live handles
    std::vector<int> mine;
    for (int h = 0; h < S->nh; h++) if (S->hs[h].live && S->hs[h].task == me) mine.push_back(h);
    uint32_t r = gen(10);
    if (mine.empty() || r < 2) {
      int name = (int)gen(MAXN);
      static const int bigs[] = {255, 256, 32767, 65536, 1000000, 2147483647};
      int v = gen(10) == 0 ? bigs[gen(6)] : (int)gen(4);      // mostly tiny (a wait is reachable), sometimes large (no truncation of the value)
      PSemaphoreAccessMode mode = gen(3) == 0 ? P_SEM_ACCESS_CREATE : P_SEM_ACCESS_OPEN;
      if (mine.size() < 4) { if (S->concurrent_lifecycle) do_new_c(name, v, mode); else do_new(name, v, mode); }
    } else {
      int hi = mine[gen((uint32_t)mine.size())];
      Hnd &H = S->hs[hi];
      bool current = S->concurrent_lifecycle || S->latest[H.name] == H.epoch;     // once a newer epoch of the name exists, older handles are only freed
      Epoch &e = S->epochs[H.epoch];
      if (r < 5 && current) {
        if (available(e) > 0 || gen(6) == 0) do_acquire(hi);   // mostly when units are there; sometimes a genuine wait
        else do_release(hi);
      } else if (r < 7 && current) do_release(hi);
      else if (r < 8) { HX_API_V("p_semaphore_take_ownership", H.name, false, p_semaphore_take_ownership(H.h)); H.owner = true; probe("sem.take_ownership"); }
      else if (r < 9) { if (S->concurrent_lifecycle) do_free_c(hi); else do_free(hi); }
      else yield_point();
      if (current && !S->stop && !S->concurrent_lifecycle) check_counter(H.epoch, "after_op");
    }
    if (kern::proc_dead(S->kill_victim) && !S->stop) { S->stop = true; }
  }
}

bool on_quiescence() {
  bool handled = false;
  sync_if_killed();
  // the lifecycle token died with its holder: hand it on
  if (S->token_owner != -1) {
    Task *o = task(S->token_owner);
    if (!o || o->state == T_DEAD || o->state == T_FINISHED) { token_give(); return true; }
  }
  for (int i = 0; i < ntasks(); i++) {
    Task *t = task(i);
    if (t->state != T_BLOCKED || t->bkind != B_SEM) continue;
    // which epoch is this task acquiring on?
    for (auto &e : S->epochs) {
      if (e.kobj != t->bobj) continue;
      if (available(e) - e.uncertain > 0 && !e.unknown_init)
        violate_noabort("acquire_blocked_with_units", "p_semaphore_acquire", "a task stays blocked in acquire on '%s' although %ld unit(s) are available", user_names[e.name], available(e));
      e.inflight--;
    }
    probe("sem.acquire_cancelled_at_quiescence");
    kill_task(t);
    handled = true;
  }
  if (run_aborted()) return false;
  return handled && !R->res.status;
}

void root() {
  S = new St();
  for (int n = 0; n < MAXN; n++) { S->bound[n] = -1; S->latest[n] = -1; }
  for (int i = 0; i < sim::MAXT; i++) S->acq_inflight[i] = -1;
  hooks().completion_required = true;
  hooks().on_quiescence = on_quiescence;
  lib_begin();
  pick_names();
  int tier = cfg().tier;
  // learn which system key each name maps to by observing one throw-away open (the harness never hashes names itself)
  for (int n = 0; n < MAXN; n++) {
    PSemaphore *h = HX_API("p_semaphore_new", n, false, p_semaphore_new(user_names[n], 0, P_SEM_ACCESS_OPEN, nullptr));
    if (!h) violate("new_failed", "mode=OPEN,name_absent", "p_semaphore_new on a fresh name returned NULL");
    S->key[n] = kern::last_sem_name();
    HX_API_V("p_semaphore_free", n, false, p_semaphore_free(h));
    if (kern::sem_name_bound(S->key[n].c_str())) violate("owner_free_left_name", "p_semaphore_free", "creator freed its handle but the name still exists");
  }
  if (S->key[0] == S->key[1]) violate("names_collide", "p_semaphore_new", "the distinct names '%s' and '%s' map to one system-wide semaphore", user_names[0], user_names[1]);
  // name-space scan (1 run in 2000): many distinct names must map to distinct system-wide objects (a key derivation that keeps too
  // few bits of the name collides somewhere in a few thousand names)
  if (gen(2000) == 0) {
    std::set<std::string> seen;
    int nscan = 500;
    uint32_t salt = gen(1u << 16);            // another family of names in every scan: each scan is an independent sample
    for (int i = 0; i < nscan; i++) {
      char nm[48]; snprintf(nm, sizeof nm, "vp-scan-%u-%d%s", salt, i, i % 3 == 0 ? "-x" : "");
      PSemaphore *h = p_semaphore_new(nm, 1, P_SEM_ACCESS_CREATE, nullptr);
      if (!h) violate("new_failed", "name_scan", "p_semaphore_new on the fresh name '%s' returned NULL", nm);
      std::string key = kern::last_sem_name();
      if (!seen.insert(key).second) violate("names_collide", "p_semaphore_new", "'%s' maps to a system-wide name another of %d scanned names already uses (%s)", nm, i, key.c_str());
      p_semaphore_free(h);
    }
    probe("sem.name_space_scanned");
  }
  int np = (int)gen_range(1, 3);
  S->nprocs = np;
  bool with_kill = np >= 2 && gen(3) == 0;
  S->concurrent_lifecycle = !with_kill && gen(4) == 0;
  describe("procs=%d%s", np, S->concurrent_lifecycle ? " concurrent-lifecycle" : "");
  if (with_kill) {
    S->kill_victim = 1 + (int)gen((uint32_t)np);
    int kth = 1 + (int)gen(tier ? 30 : 14); bool after = gen(2);
    kern::plan_kill(S->kill_victim, kth, after);
    describe(" kill=proc%d %s ipc#%d", S->kill_victim, after ? "after" : "before", kth);
  }
  int total_tasks = 0;
  for (int p = 0; p < np; p++) {
    int nt = (int)gen_range(1, 2);
    for (int t = 0; t < nt; t++) { int n = (int)gen_range(2, tier ? 20 : 10); describe(" p%d:t%d", p + 1, n); spawn(p + 1, [n]() { script(n); }); total_tasks++; }
  }
  wait_all_others();
  kern::plan_kill(-1, 0, false);     // kills belong to the script phase only
  if (with_kill && kern::proc_dead(S->kill_victim)) { sync_if_killed(); probe("sem.kill_happened"); }
  // wind-down: every surviving process frees what it still holds (owners unlink)
  for (int p = 1; p <= np; p++) {
    if (kern::proc_dead(p)) continue;
    bool any = false;
    for (int h = 0; h < S->nh; h++) if (S->hs[h].live && S->hs[h].proc == p) any = true;
    if (!any) continue;
    spawn(p, [p]() { for (int h = 0; h < S->nh; h++) if (S->hs[h].live && S->hs[h].proc == p) { S->hs[h].task = cur()->id; if (S->concurrent_lifecycle) do_free_c(h); else do_free(h); } });
    wait_all_others();
  }
  // documented recovery / clean-up by a fresh process: open, take ownership, free, create again
  spawn(9, []() {
    for (int n = 0; n < MAXN; n++) {
      PError *err = nullptr;
      PSemaphore *h = HX_API("p_semaphore_new", n, false, p_semaphore_new(user_names[n], 0, P_SEM_ACCESS_OPEN, &err));
      if (!h) violate("recovery_open_failed", "p_semaphore_new", "clean-up open of '%s' failed (native %d)", user_names[n], err ? p_error_get_native_code(err) : 0);
      std::string key = kern::last_sem_name();
      HX_API_V("p_semaphore_take_ownership", n, false, p_semaphore_take_ownership(h));
      HX_API_V("p_semaphore_free", n, false, p_semaphore_free(h));
      if (kern::sem_name_bound(key.c_str())) violate("recovery_left_name", "p_semaphore_free", "open / take ownership / free did not remove '%s' from the system", user_names[n]);
      int v = 1 + n;
      PSemaphoreAccessMode mode = gen(2) ? P_SEM_ACCESS_CREATE : P_SEM_ACCESS_OPEN;
      PSemaphore *h2 = HX_API("p_semaphore_new", n, false, p_semaphore_new(user_names[n], v, mode, &err));
      if (!h2) violate("recovery_create_failed", "p_semaphore_new", "re-creation of '%s' after clean-up failed", user_names[n]);
      if (kern::sem_value(kern::last_sem_obj()) != v) violate("recovery_wrong_value", "p_semaphore_new", "re-created '%s' has counter %d, asked for %d", user_names[n], kern::sem_value(kern::last_sem_obj()), v);
      if (!HX_API("p_semaphore_acquire", n, false, p_semaphore_acquire(h2, nullptr))) violate("acquire_failed", "p_semaphore_acquire", "acquire on re-created semaphore failed");
      HX_API_V("p_semaphore_free", n, false, p_semaphore_free(h2));      // creator of a fresh object is its owner
      if (kern::sem_name_bound(key.c_str())) violate("owner_free_left_name", "p_semaphore_free", "creator freed its handle but the name '%s' still exists", user_names[n]);
    }
  });
  wait_all_others();
  auto left = kern::names_bound();
  if (!left.empty()) violate("names_left_behind", "end", "%zu IPC name(s) remain in the system, e.g. %s", left.size(), left[0].c_str());
  lib_end();
  delete S; S = nullptr;
}

void configure(Config &c, Rng &) {
  swarm_schedule(c, 300);
  c.step_cap = 200000;
  static const double pe[] = {0, 0, 0.05, 0.3};
  c.p[ST_EINTR] = pe[gen(4)];
}

}  // namespace

SIM_HARNESS(ipc_sem, "C06", root, configure)
