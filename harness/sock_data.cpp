// C09 — sockets deliver data intact (TCP stream, UDP datagrams) despite EINTR / EAGAIN / short transfers.
#include "common.h"
#include <map>
#include "../sim/kernel.h"
#include "../sim/knet.h"
#include <string.h>
#include <stdlib.h>
#include <errno.h>

using namespace hx;

namespace {

inline uint8_t prf(uint32_t conn, uint64_t i) {
  uint64_t z = (uint64_t)conn * 0x9E3779B97F4A7C15ULL + i * 0xBF58476D1CE4E5B9ULL + 0x94D049BB133111EBULL;
  z ^= z >> 29; z *= 0xD6E8FEB86659FD93ULL; z ^= z >> 32;
  return (uint8_t)z;
}

struct Conn {
  uint32_t id; size_t total;            // bytes the sender intends to send
  size_t sent = 0, received = 0;        // reported by successful sends / delivered by successful receives
  bool sender_done = false, receiver_done = false, aborted = false, receiver_quits_early = false;
  bool client_sends = true;
  bool use_send_to = false; PSocketAddress *peer_addr = nullptr;      // stream data pushed through p_socket_send_to (address ignored on a connected socket)
};
struct St {
  std::map<PSocket *, int> tmo;   // timeout (ms) given to a blocking stream socket, 0 = none
  PSocketFamily fam;
  int port = 0; bool server_ready = false, server_failed = false;
  std::vector<Conn> conns;
  bool faults_reset = false;
  int udp_ports[3]; bool udp_ready[3]; int nudp = 0;
  // datagram registry: (sender, seq) -> payload
  std::vector<std::string> dgrams;
  std::vector<int> dgram_sender;
  bool net_faults = false;
};
St *S;

int err_code(PError *e) { return e ? p_error_get_code(e) : 0; }
int err_native(PError *e) { return e ? p_error_get_native_code(e) : 0; }
void drop(PError **e) { if (*e) { p_error_free(*e); *e = nullptr; } }

// an error surfaced by a BLOCKING call must be a real reason, never an internal would-block / interrupted condition
void check_blocking_error(const char *api, PError *e, bool blocking, int timeout_ms = 0, uint64_t t0 = 0) {
  int code = err_code(e), nat = err_native(e);
  // (a timed-out wait carries whatever errno was left over as its native code: only the class counts there)
  if (nat == EINTR && code != P_ERROR_IO_TIMED_OUT) violate("interrupted_error_surfaced", api, "%s reported an interrupted-call error (native EINTR) to the caller", api);
  if (blocking && (code == P_ERROR_IO_WOULD_BLOCK || ((nat == EAGAIN || nat == EWOULDBLOCK) && code != P_ERROR_IO_TIMED_OUT)))
    violate("would_block_surfaced_in_blocking_mode", api, "%s on a blocking socket reported would-block (code %d native %d)", api, code, nat);
  if (blocking && code == P_ERROR_IO_TIMED_OUT) {
    if (timeout_ms <= 0) violate("timed_out_without_timeout", api, "%s on a blocking socket without timeout reported a time-out", api);
    // with a timeout: a time-out is a real reason only once that much simulated time has passed since the call began
    else if (now_ns() - t0 < (uint64_t)timeout_ms * 1000000ULL)
      violate("timed_out_early", api, "%s on a blocking socket with a %d ms timeout reported a time-out after only %llu us", api, timeout_ms, (unsigned long long)((now_ns() - t0) / 1000));
    else probe("data.timeout_elapsed_for_real");
  }
}
// some blocking stream sockets get a (generous) timeout: retried waits must not eat it up
int draw_timeout(PSocket *s, bool blocking) {
  // one socket may serve a sender task and a receiver task at once: the first of them decides, both look the value up per call
  if (S->tmo.count(s)) return S->tmo[s];
  S->tmo[s] = 0;
  if (!blocking || gen(3) != 0) return 0;
  static const int ts[] = {200, 5000, 60000};
  int t = ts[gen(3)];
  p_socket_set_timeout(s, t);
  probe("data.blocking_with_timeout");
  S->tmo[s] = t;
  return t;
}

void wait_cond(PSocket *s, PSocketIOCondition c) {
  PError *e = nullptr;
  if (!HX_API("p_socket_io_condition_wait", 0, false, p_socket_io_condition_wait(s, c, &e))) {
    check_blocking_error("p_socket_io_condition_wait", e, true);
    drop(&e);
  }
}

void run_sender(PSocket *s, Conn &c, bool blocking) {
  draw_timeout(s, blocking);
  if (c.use_send_to && !c.peer_addr) { PError *pe = nullptr; c.peer_addr = p_socket_get_remote_address(s, &pe); drop(&pe); }
  struct AddrGuard { Conn &c; ~AddrGuard() { if (c.peer_addr) { p_socket_address_free(c.peer_addr); c.peer_addr = nullptr; } } } guard_addr{c};
  size_t pos = 0;
  std::vector<char> buf;
  // every successful send moves at least one byte; would-block rounds are bounded by the step cap of the run
  size_t guard = 0, guard_max = 4 * c.total + 20000;
  while (pos < c.total && !c.aborted && guard++ < guard_max) {
    size_t chunk = 1 + gen(gen(3) == 0 ? 8192 : 300);
    chunk = std::min(chunk, c.total - pos);
    char *b = (char *)malloc(chunk);                       // exact size: over-reads hit a red zone (flavour A)
    for (size_t i = 0; i < chunk; i++) b[i] = (char)prf(c.id, pos + i);
    PError *e = nullptr;
    pssize n;
    uint64_t t0 = now_ns(); int tmo = S->tmo[s];
    if (c.use_send_to && c.peer_addr) n = HX_API("p_socket_send_to", (int)c.id, false, p_socket_send_to(s, c.peer_addr, b, chunk, &e));     // on a connected socket the address is ignored
    else n = HX_API("p_socket_send", (int)c.id, false, p_socket_send(s, b, chunk, &e));
    free(b);
    if (n > 0) {
      if ((size_t)n > chunk) violate("send_reported_more_than_given", "p_socket_send", "send(%zu) returned %zd", chunk, (ssize_t)n);
      pos += (size_t)n; c.sent = pos;
      if ((size_t)n < chunk) probe("data.partial_send_reported");
    } else if (n == 0) {
      violate("send_returned_zero", "p_socket_send", "send of %zu bytes returned 0", chunk);
    } else {
      check_blocking_error("p_socket_send", e, blocking, tmo, t0);
      int code = err_code(e); drop(&e);
      if (blocking && tmo && code == P_ERROR_IO_TIMED_OUT) continue;      // the timeout really elapsed: try again
      if (!blocking && code == P_ERROR_IO_WOULD_BLOCK) { probe("data.nonblocking_send_waited"); wait_cond(s, P_SOCKET_IO_CONDITION_POLLOUT); continue; }
      // a genuine error: only legitimate when the peer went away / the connection was reset
      if (!c.receiver_quits_early && !S->faults_reset) violate("send_failed", "p_socket_send", "send failed with code %d although the peer is alive and reading", code);
      probe("data.send_error_after_peer_gone");
      c.aborted = true;
    }
  }
  c.sender_done = true;
}

void run_receiver(PSocket *s, Conn &c, bool blocking) {
  draw_timeout(s, blocking);
  size_t guard = 0, guard_max = 4 * c.total + 40000;
  size_t quit_after = c.receiver_quits_early ? gen((uint32_t)c.total + 1) : SIZE_MAX;
  while (guard++ < guard_max) {
    if (c.received >= quit_after) { probe("data.receiver_quit_early"); break; }
    size_t blen = 1 + gen(gen(3) == 0 ? 8192 : 200);
    char *b = (char *)malloc(blen);
    memset(b, 0x5A, blen);
    PError *e = nullptr;
    uint64_t t0 = now_ns(); int tmo = S->tmo[s];
    pssize n = HX_API("p_socket_receive", (int)c.id, false, p_socket_receive(s, b, blen, &e));
    if (n > 0) {
      if ((size_t)n > blen) violate("receive_overran_buffer", "p_socket_receive", "receive(%zu) returned %zd", blen, (ssize_t)n);
      for (size_t i = 0; i < (size_t)n; i++)
        if ((uint8_t)b[i] != prf(c.id, c.received + i))
          violate("stream_corrupted", "p_socket_receive", "connection %u: byte %zu of the received stream is %u, the byte sent at that position was %u (loss, duplication, reordering or corruption)",
                  c.id, c.received + i, (uint8_t)b[i], prf(c.id, c.received + i));
      c.received += (size_t)n;
      free(b);
      continue;
    }
    free(b);
    if (n == 0) { probe("data.eof_seen"); break; }
    check_blocking_error("p_socket_receive", e, blocking, tmo, t0);
    int code = err_code(e); drop(&e);
    if (blocking && tmo && code == P_ERROR_IO_TIMED_OUT) continue;        // the timeout really elapsed: try again
    if (!blocking && code == P_ERROR_IO_WOULD_BLOCK) { probe("data.nonblocking_receive_waited"); wait_cond(s, P_SOCKET_IO_CONDITION_POLLIN); continue; }
    if (!S->faults_reset && !c.aborted) violate("receive_failed", "p_socket_receive", "receive failed with code %d on a healthy connection", code);
    c.aborted = true;
    break;
  }
  c.receiver_done = true;
}

PSocketAddress *loopback(int port) { return HX_API("p_socket_address_new_loopback", 0, false, p_socket_address_new_loopback(S->fam, (puint16)port)); }

void tcp_server(int nconn, bool blocking_listener) {
  PError *e = nullptr;
  PSocket *srv = HX_API("p_socket_new", 0, false, p_socket_new(S->fam, P_SOCKET_TYPE_STREAM, P_SOCKET_PROTOCOL_TCP, &e));
  if (!srv) violate("socket_new_failed", "p_socket_new", "p_socket_new failed (code %d)", err_code(e));
  PSocketAddress *a = loopback(0);
  if (!HX_API("p_socket_bind", 0, false, p_socket_bind(srv, a, TRUE, &e))) violate("bind_failed", "p_socket_bind", "bind to loopback:0 failed (code %d)", err_code(e));
  p_socket_address_free(a);
  p_socket_set_listen_backlog(srv, 1 + (int)gen(4));
  if (!HX_API("p_socket_listen", 0, false, p_socket_listen(srv, &e))) violate("listen_failed", "p_socket_listen", "listen failed (code %d)", err_code(e));
  PSocketAddress *la = HX_API("p_socket_get_local_address", 0, false, p_socket_get_local_address(srv, &e));
  if (!la) violate("local_address_failed", "p_socket_get_local_address", "no local address");
  S->port = p_socket_address_get_port(la);
  p_socket_address_free(la);
  S->server_ready = true;
  for (int k = 0; k < ntasks(); k++) { Task *t = task(k); if (t->state == T_BLOCKED && t->bkind == B_HOLD) wake(t); }
  p_socket_set_blocking(srv, blocking_listener);
  for (int i = 0; i < nconn; i++) {
    PSocket *cs = nullptr;
    for (int guard = 0; guard < 2000 && !cs; guard++) {
      cs = HX_API("p_socket_accept", 0, false, p_socket_accept(srv, &e));
      if (!cs) {
        check_blocking_error("p_socket_accept", e, blocking_listener);
        int code = err_code(e); drop(&e);
        if (!blocking_listener && code == P_ERROR_IO_WOULD_BLOCK) { wait_cond(srv, P_SOCKET_IO_CONDITION_POLLIN); continue; }
        violate("accept_failed", "p_socket_accept", "accept failed with code %d", code);
      }
    }
    if (!cs) violate("accept_failed", "p_socket_accept", "accept never succeeded");
    // find which connection this is: by the remote port announced by the client (kept simple: connections are served in arrival order)
    PSocketAddress *ra = HX_API("p_socket_get_remote_address", 0, false, p_socket_get_remote_address(cs, &e));
    int rport = ra ? p_socket_address_get_port(ra) : -1;
    if (ra) p_socket_address_free(ra);
    int ci = -1;
    for (size_t k = 0; k < S->conns.size(); k++) if ((int)S->conns[k].id == rport) ci = (int)k;
    if (ci < 0) violate("unknown_peer", "p_socket_accept", "accepted a connection from a port no client uses (%d)", rport);
    bool blocking = gen(2);
    if (!blocking) p_socket_set_blocking(cs, FALSE);      // an accepted socket is blocking by default, whatever the listener's mode
    spawn(0, [cs, ci, blocking]() {
      Conn &c = S->conns[ci];
      if (c.client_sends) run_receiver(cs, c, blocking); else run_sender(cs, c, blocking);
      if (!c.client_sends && gen(2)) { PError *e2 = nullptr; HX_API("p_socket_shutdown", 0, false, p_socket_shutdown(cs, FALSE, TRUE, &e2)); drop(&e2); yield_point(); }
      HX_API_V("p_socket_free", 0, false, p_socket_free(cs));
    });
  }
  HX_API_V("p_socket_free", 0, false, p_socket_free(srv));
}

void tcp_client(int ci, bool blocking) {
  while (!S->server_ready) block(B_HOLD, 1);
  Conn &c = S->conns[ci];
  PError *e = nullptr;
  PSocket *s = HX_API("p_socket_new", 0, false, p_socket_new(S->fam, P_SOCKET_TYPE_STREAM, P_SOCKET_PROTOCOL_TCP, &e));
  if (!s) violate("socket_new_failed", "p_socket_new", "p_socket_new failed (code %d)", err_code(e));
  // bind to a local port first so that the server can tell the connections apart; the port number IS the connection id
  PSocketAddress *la = loopback(0);
  if (!HX_API("p_socket_bind", 0, false, p_socket_bind(s, la, FALSE, &e))) violate("bind_failed", "p_socket_bind", "client bind failed (code %d)", err_code(e));
  p_socket_address_free(la);
  PSocketAddress *me = HX_API("p_socket_get_local_address", 0, false, p_socket_get_local_address(s, &e));
  c.id = p_socket_address_get_port(me);
  p_socket_address_free(me);
  if (!blocking) p_socket_set_blocking(s, FALSE);
  PSocketAddress *sa = loopback(S->port);
  pboolean ok = HX_API("p_socket_connect", 0, false, p_socket_connect(s, sa, &e));
  p_socket_address_free(sa);
  if (!ok) {
    check_blocking_error("p_socket_connect", e, blocking);
    int code = err_code(e); drop(&e);
    if (blocking || (code != P_ERROR_IO_IN_PROGRESS && code != P_ERROR_IO_WOULD_BLOCK)) violate("connect_failed", "p_socket_connect", "connect to a listening socket failed (code %d)", code);
    probe("data.nonblocking_connect");
    for (int guard = 0; guard < 100; guard++) {
      wait_cond(s, P_SOCKET_IO_CONDITION_POLLOUT);
      if (HX_API("p_socket_check_connect_result", 0, false, p_socket_check_connect_result(s, &e))) break;
      int c2 = err_code(e); drop(&e);
      if (c2 != P_ERROR_IO_IN_PROGRESS && c2 != P_ERROR_IO_WOULD_BLOCK && c2 != 0) violate("connect_failed", "p_socket_check_connect_result", "connection did not complete (code %d)", c2);
    }
  }
  if (!p_socket_is_connected(s)) violate("not_connected_after_connect", "p_socket_connect", "connect succeeded but the socket does not report connected");
  if (c.client_sends) run_sender(s, c, blocking); else run_receiver(s, c, blocking);
  if (c.client_sends && gen(2)) { HX_API("p_socket_shutdown", 0, false, p_socket_shutdown(s, FALSE, TRUE, &e)); drop(&e); yield_point(); }
  HX_API_V("p_socket_free", 0, false, p_socket_free(s));
}

void tcp_mode() {
  int tier = cfg().tier;
  int nconn = (int)gen_range(1, 2);
  S->conns.resize(nconn);
  describe("mode=tcp fam=%s conns=%d", S->fam == P_SOCKET_FAMILY_INET ? "v4" : "v6", nconn);
  for (int i = 0; i < nconn; i++) {
    Conn &c = S->conns[i];
    uint32_t r = gen(4);
    c.total = r == 0 ? 1 + gen(16) : r == 1 ? 1 + gen(2000) : 1 + gen(tier ? 262144 : 32768);
    c.client_sends = gen(2);
    c.receiver_quits_early = gen(8) == 0;
    c.use_send_to = gen(4) == 0;
    describe(" [%zuB %s%s%s]", c.total, c.client_sends ? "c->s" : "s->c", c.receiver_quits_early ? " rx-quits" : "", c.use_send_to ? " via-send_to" : "");
  }
  bool bl = gen(2);
  spawn(0, [nconn, bl]() { tcp_server(nconn, bl); });
  for (int i = 0; i < nconn; i++) { bool b = gen(2); spawn(0, [i, b]() { tcp_client(i, b); }); }
  wait_all_others();
  for (auto &c : S->conns) {
    if (c.received > c.sent) violate("received_more_than_sent", "stream", "connection %u: %zu bytes received, %zu reported as sent", c.id, c.received, c.sent);
    if (!c.receiver_quits_early && !c.aborted && !S->faults_reset && c.received != c.sent)
      violate("stream_truncated", "stream", "connection %u: sender reported %zu bytes, receiver got %zu before end of stream", c.id, c.sent, c.received);
    if (c.sent >= 1000) probe("data.stream_1k_plus");
  }
}

// request/response over one connection: the client sends a request, shuts down its write side, the server reads the
// request to its end, answers and closes; the client (possibly slow) must still receive the whole answer and then EOF.
void reqresp_mode() {
  size_t reqlen = 1 + gen(600), resplen = 1 + gen(cfg().tier ? 200000 : 30000);
  bool slow_reader = gen(2);
  describe("mode=reqresp fam=%s req=%zu resp=%zu%s", S->fam == P_SOCKET_FAMILY_INET ? "v4" : "v6", reqlen, resplen, slow_reader ? " slow-reader" : "");
  S->conns.resize(2);
  Conn &rq = S->conns[0], &rs = S->conns[1];
  rq.id = 7001; rq.total = reqlen; rs.id = 7002; rs.total = resplen;
  spawn(0, [&rq, &rs]() {
    PError *e = nullptr;
    PSocket *srv = HX_API("p_socket_new", 0, false, p_socket_new(S->fam, P_SOCKET_TYPE_STREAM, P_SOCKET_PROTOCOL_TCP, &e));
    PSocketAddress *a = loopback(0);
    if (!srv || !p_socket_bind(srv, a, TRUE, &e) || !p_socket_listen(srv, &e)) violate("listen_failed", "p_socket_listen", "server set-up failed");
    p_socket_address_free(a);
    PSocketAddress *la = p_socket_get_local_address(srv, &e); S->port = p_socket_address_get_port(la); p_socket_address_free(la);
    S->server_ready = true;
    for (int k = 0; k < ntasks(); k++) { Task *t = task(k); if (t->state == T_BLOCKED && t->bkind == B_HOLD) wake(t); }
    PSocket *cs = HX_API("p_socket_accept", 0, false, p_socket_accept(srv, &e));
    if (!cs) { check_blocking_error("p_socket_accept", e, true); violate("accept_failed", "p_socket_accept", "accept failed (code %d)", err_code(e)); }
    run_receiver(cs, rq, true);                 // until the client's half-close
    if (rq.received != rq.total) violate("stream_truncated", "stream", "request: %zu of %zu bytes arrived before end of stream", rq.received, rq.total);
    run_sender(cs, rs, true);
    HX_API_V("p_socket_free", 0, false, p_socket_free(cs));   // answer and close
    HX_API_V("p_socket_free", 0, false, p_socket_free(srv));
  });
  spawn(0, [&rq, &rs, slow_reader]() {
    while (!S->server_ready) block(B_HOLD, 1);
    PError *e = nullptr;
    PSocket *s = HX_API("p_socket_new", 0, false, p_socket_new(S->fam, P_SOCKET_TYPE_STREAM, P_SOCKET_PROTOCOL_TCP, &e));
    PSocketAddress *sa = loopback(S->port);
    if (!s || !HX_API("p_socket_connect", 0, false, p_socket_connect(s, sa, &e))) { check_blocking_error("p_socket_connect", e, true); violate("connect_failed", "p_socket_connect", "connect failed (code %d)", err_code(e)); }
    p_socket_address_free(sa);
    run_sender(s, rq, true);
    if (!HX_API("p_socket_shutdown", 0, false, p_socket_shutdown(s, FALSE, TRUE, &e))) violate("shutdown_failed", "p_socket_shutdown", "half-close failed (code %d)", err_code(e));
    probe("data.half_close");
    if (slow_reader) sleep_until(now_ns() + 50000000ULL);      // the answer and the peer's close arrive before we start reading
    run_receiver(s, rs, true);
    HX_API_V("p_socket_free", 0, false, p_socket_free(s));
  });
  wait_all_others();
  if (rs.received != rs.sent || rs.sent != rs.total)
    violate("stream_truncated", "stream", "answer after half-close: server reported %zu of %zu bytes sent, client received %zu before end of stream / error", rs.sent, rs.total, rs.received);
  probe("data.reqresp_done");
}

void udp_mode() {
  int n = (int)gen_range(2, 3);
  S->nudp = n;
  describe("mode=udp fam=%s sockets=%d netfaults=%d", S->fam == P_SOCKET_FAMILY_INET ? "v4" : "v6", n, (int)S->net_faults);
  for (int i = 0; i < n; i++) S->udp_ready[i] = false;
  int *ready = new int(0);
  for (int i = 0; i < n; i++) spawn(0, [i, n, ready]() {
    PError *e = nullptr;
    PSocket *s = HX_API("p_socket_new", 0, false, p_socket_new(S->fam, P_SOCKET_TYPE_DATAGRAM, P_SOCKET_PROTOCOL_UDP, &e));
    if (!s) violate("socket_new_failed", "p_socket_new", "p_socket_new(UDP) failed (code %d)", err_code(e));
    PSocketAddress *a = loopback(0);
    if (!HX_API("p_socket_bind", 0, false, p_socket_bind(s, a, FALSE, &e))) violate("bind_failed", "p_socket_bind", "bind failed (code %d)", err_code(e));
    p_socket_address_free(a);
    PSocketAddress *me = HX_API("p_socket_get_local_address", 0, false, p_socket_get_local_address(s, &e));
    S->udp_ports[i] = p_socket_address_get_port(me);
    p_socket_address_free(me);
    S->udp_ready[i] = true; (*ready)++;
    while (*ready < n) block(B_BARRIER, 0);
    for (int k = 0; k < ntasks(); k++) { Task *t = task(k); if (t->state == T_BLOCKED && t->bkind == B_BARRIER) wake(t); }
    bool blocking = gen(2);
    p_socket_set_blocking(s, blocking);
    p_socket_set_timeout(s, 20);                      // receivers give up after 20 ms of silence (simulated)
    int nsend = (int)gen_range(0, 5);
    for (int k = 0; k < nsend; k++) {
      int dst = (int)gen((uint32_t)n);
      size_t len = gen(8) == 0 ? gen(4) : 4 + gen(gen(2) ? 40 : 2000);       // empty and tiny datagrams are datagrams too
      int serial = (int)S->dgrams.size();
      std::string d(len, 0);
      if (len >= 4) { d[0] = (char)(serial & 0xff); d[1] = (char)(serial >> 8); d[2] = (char)i; d[3] = (char)0xD6; }
      else { for (size_t j = 0; j < len; j++) d[j] = (char)(0xE0 + i); if (len == 0) probe("data.empty_datagram_sent"); }
      for (size_t j = 4; j < len; j++) d[j] = (char)prf(1000 + serial, j);
      S->dgrams.push_back(d); S->dgram_sender.push_back(i);
      PSocketAddress *to = loopback(S->udp_ports[dst]);
      pssize r = HX_API("p_socket_send_to", i, false, p_socket_send_to(s, to, d.data(), len, &e));
      p_socket_address_free(to);
      if (r < 0) { check_blocking_error("p_socket_send_to", e, blocking); int code = err_code(e); drop(&e); if (!(!blocking && code == P_ERROR_IO_WOULD_BLOCK)) violate("send_to_failed", "p_socket_send_to", "send_to failed (code %d)", code); }
      else if ((size_t)r != len) violate("datagram_cut_by_sender", "p_socket_send_to", "send_to(%zu) returned %zd", len, (ssize_t)r);
      if (gen(2)) yield_point();
    }
    // receive until silence
    for (int guard = 0; guard < 64; guard++) {
      size_t blen = gen(3) == 0 ? 1 + gen(64) : 2100;
      char *b = (char *)malloc(blen);
      PSocketAddress *from = nullptr;
      pssize r = HX_API("p_socket_receive_from", i, false, p_socket_receive_from(s, &from, b, blen, &e));
      if (r < 0) {
        int code = err_code(e), nat = err_native(e); drop(&e);
        free(b);
        if (nat == EINTR && code != P_ERROR_IO_TIMED_OUT) violate("interrupted_error_surfaced", "p_socket_receive_from", "receive_from reported EINTR");
        if (code == P_ERROR_IO_TIMED_OUT) break;
        if (!blocking && code == P_ERROR_IO_WOULD_BLOCK) {
          PError *e2 = nullptr;
          if (!HX_API("p_socket_io_condition_wait", 0, false, p_socket_io_condition_wait(s, P_SOCKET_IO_CONDITION_POLLIN, &e2))) { int c2 = err_code(e2); drop(&e2); if (c2 == P_ERROR_IO_TIMED_OUT) break; }
          continue;
        }
        if (blocking && code == P_ERROR_IO_WOULD_BLOCK) violate("would_block_surfaced_in_blocking_mode", "p_socket_receive_from", "blocking receive_from reported would-block");
        violate("receive_from_failed", "p_socket_receive_from", "receive_from failed (code %d)", code);
      }
      if ((size_t)r > blen) violate("receive_overran_buffer", "p_socket_receive_from", "receive_from(%zu) returned %zd", blen, (ssize_t)r);
      // identify: the first bytes carry the serial when the buffer was long enough; otherwise compare against all candidates
      // every sent datagram this one can be (short ones are not unique): the reported source must be the sender of one of them
      bool matched = false, source_ok = false; int sender = -1;
      for (size_t k = 0; k < S->dgrams.size(); k++) {
        const std::string &d = S->dgrams[k];
        size_t expect = std::min(blen, d.size());
        if ((size_t)r == expect && memcmp(d.data(), b, expect) == 0) {
          matched = true; sender = S->dgram_sender[k];
          if (from && p_socket_address_get_port(from) == S->udp_ports[sender] && p_socket_address_is_loopback(from)) source_ok = true;
        }
      }
      if (!matched) violate("datagram_not_one_sent", "p_socket_receive_from", "a received datagram of %zd bytes (buffer %zu) is not one sent datagram cut to the buffer length", (ssize_t)r, blen);
      if (!from) violate("no_source_address", "p_socket_receive_from", "receive_from returned a datagram of %zd bytes but no source address", (ssize_t)r);
      if (r == 0) probe("data.empty_datagram_received");
      if (!source_ok)
        { pchar *txt = from ? p_socket_address_get_address(from) : nullptr;
          std::string t = txt ? txt : "?"; p_free(txt);
          violate("wrong_source_address", "p_socket_receive_from", "datagram from the loopback socket bound to port %d reported as coming from %s port %d", S->udp_ports[sender], t.c_str(), p_socket_address_get_port(from)); }
      if (p_socket_address_get_family(from) != S->fam) violate("wrong_source_address", "p_socket_receive_from", "source address has the wrong family");
      p_socket_address_free(from);
      free(b);
      probe("data.datagram_received");
    }
    HX_API_V("p_socket_free", 0, false, p_socket_free(s));
  });
  wait_all_others();
  delete ready;
}

void root() {
  S = new St();
  hooks().completion_required = true;
  lib_begin();
  S->fam = gen(2) ? P_SOCKET_FAMILY_INET : P_SOCKET_FAMILY_INET6;
  static const int bufs[] = {16, 64, 200, 1024, 4096, 65536};
  uint32_t mode = gen(8);
  bool udp = mode <= 1, reqresp = mode == 2;
  int sb = bufs[gen(6)], rb = bufs[gen(6)];
  kern::set_net_defaults(sb, rb, false);
  if (udp) { S->net_faults = gen(2); kern::set_net_defaults(sb, rb, S->net_faults); udp_mode(); }
  else if (reqresp) reqresp_mode();
  else tcp_mode();
  if (kern::sigpipe_deliveries()) violate("sigpipe_delivered", "send", "writing to a peer that has gone raised SIGPIPE %d time(s) instead of only returning an error", kern::sigpipe_deliveries());
  if (kern::fd_count(0)) violate("descriptor_left_open", "end", "descriptors still open after every socket was freed: %s", kern::fd_desc(0).c_str());
  if (kern::bad_closes()) violate("bad_close", "end", "%d close() call(s) on descriptors that were not open", kern::bad_closes());
  lib_end();
  delete S; S = nullptr;
}

void configure(Config &c, Rng &) {
  swarm_schedule(c, 500);
  c.step_cap = 2000000;
  static const double pe[] = {0, 0, 0.02, 0.1, 0.3};
  c.p[ST_EINTR] = pe[gen(5)];
  c.p[ST_SHORT] = pe[gen(5)];
  c.p[ST_NET] = pe[gen(5)];
  c.p[ST_TIMER] = pe[gen(5)];
}

}  // namespace

SIM_HARNESS(sock_data, "C09", root, configure)
