// Shared helpers for harnesses: plibsys API, run bracket, standard swarm configuration.
#pragma once
#include "../sim/sim.h"
#include "../sim/core.h"
#include "../sim/shim.h"
extern "C" {
#include <plibsys.h>
}
#include <string>
#include <vector>

namespace hx {
using namespace sim;

inline void lib_begin() {
  alloc::install();
  p_libsys_init();
}
inline void lib_end() {
  p_libsys_shutdown();
  mark_clean_end();
}

// standard schedule swarm: one policy per run
inline void swarm_schedule(Config &c, int expected_len) {
  c.pct_len = expected_len;
  switch (gen(5)) {
  case 0: c.policy = POL_RANDOM; c.switch_p = 0.5; break;
  case 1: c.policy = POL_RANDOM; c.switch_p = 0.1; break;
  case 2: c.policy = POL_RANDOM; c.switch_p = 1.0; break;
  case 3: c.policy = POL_PCT; c.pct_d = 1 + (int)gen(4); break;
  default: c.policy = POL_RR; c.rr_quantum = 1 + (int)gen(5); break;
  }
}

#define HX_API(name, obj, nb, expr) ([&]() { sim::ApiScope _as(name, obj, nb); return (expr); }())
#define HX_API_V(name, obj, nb, stmt) do { sim::ApiScope _as(name, obj, nb); stmt; } while (0)

}  // namespace hx
