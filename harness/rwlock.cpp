// C02 — PRWLock: writers exclusive, readers shared, trylock rules, no lost wake-up / deadlock.
#include "common.h"

using namespace hx;

namespace {

enum StepKind { R_LOCK, R_TRY, W_LOCK, W_TRY, THINK };
struct St {
  PRWLock *l = nullptr;
  int readers = 0, writers = 0;      // shadow: tasks between lock-return and unlock-invoke
  int inflight = 0; uint64_t epoch = 0;
  long data = 0; long writes = 0;
  int barrier_n = 0, barrier_arrived = 0;
  std::vector<std::vector<uint8_t>> scripts;
};
St *S;

void check_shadow(const char *who) {
  if (S->writers > 1) violate("two_writers", who, "two writers hold the lock");
  if (S->writers && S->readers) violate("reader_with_writer", who, "%d reader(s) and a writer hold the lock at the same time", S->readers);
}

void body_read() {
  SIM_READ(S->data);
  long v = S->data;
  yield_point();
  check_shadow("body");
  SIM_READ(S->data);
  if (S->data != v) violate("data_changed_under_read_lock", "body", "protected data changed while a read lock was held");
}
void body_write() {
  SIM_READ(S->data);
  long v = S->data;
  yield_point();
  check_shadow("body");
  SIM_WRITE(S->data);
  S->data = v + 1;
  S->writes++;
}

void unlock_reader() {
  S->readers--;
  S->inflight++; S->epoch++;
  pboolean r = HX_API("p_rwlock_reader_unlock", 0, false, p_rwlock_reader_unlock(S->l));
  S->inflight--;
  if (!r) violate("unlock_returned_false", "p_rwlock_reader_unlock", "reader unlock returned FALSE");
}
void unlock_writer() {
  S->writers--;
  S->inflight++; S->epoch++;
  pboolean r = HX_API("p_rwlock_writer_unlock", 0, false, p_rwlock_writer_unlock(S->l));
  S->inflight--;
  if (!r) violate("unlock_returned_false", "p_rwlock_writer_unlock", "writer unlock returned FALSE");
}

void step(uint8_t k) {
  switch (k) {
  case R_LOCK: {
    S->inflight++; S->epoch++;
    pboolean r = HX_API("p_rwlock_reader_lock", 0, false, p_rwlock_reader_lock(S->l));
    S->inflight--;
    if (!r) violate("lock_returned_false", "p_rwlock_reader_lock", "reader lock returned FALSE");
    S->readers++; order_ev(0, 1, cur()->id); check_shadow("p_rwlock_reader_lock");
    if (S->readers >= 2) probe("rw.two_readers_inside");
    body_read();
    unlock_reader();
    break;
  }
  case R_TRY: {
    bool must = S->writers == 0 && S->inflight == 0;
    S->inflight++; S->epoch++;
    uint64_t e0 = S->epoch;
    pboolean r = HX_API("p_rwlock_reader_trylock", 0, true, p_rwlock_reader_trylock(S->l));
    S->inflight--;
    if (!r && must && S->epoch == e0 && S->writers == 0)
      violate("reader_trylock_failed_when_grantable", "p_rwlock_reader_trylock", "no writer holds or waits, nobody else is using the lock (%d readers inside), yet reader trylock returned FALSE", S->readers);
    if (r) {
      S->readers++; order_ev(0, 2, cur()->id); check_shadow("p_rwlock_reader_trylock");
      probe(S->readers >= 2 ? "rw.tryread_joined_readers" : "rw.tryread_ok");
      body_read();
      unlock_reader();
    } else probe("rw.tryread_busy");
    break;
  }
  case W_LOCK: {
    if (S->readers >= 2) probe("rw.writer_arrives_with_2_readers");
    S->inflight++; S->epoch++;
    pboolean r = HX_API("p_rwlock_writer_lock", 0, false, p_rwlock_writer_lock(S->l));
    S->inflight--;
    if (!r) violate("lock_returned_false", "p_rwlock_writer_lock", "writer lock returned FALSE");
    S->writers++; order_ev(0, 3, cur()->id); check_shadow("p_rwlock_writer_lock");
    body_write();
    unlock_writer();
    break;
  }
  case W_TRY: {
    bool must = S->writers == 0 && S->readers == 0 && S->inflight == 0;
    S->inflight++; S->epoch++;
    uint64_t e0 = S->epoch;
    pboolean r = HX_API("p_rwlock_writer_trylock", 0, true, p_rwlock_writer_trylock(S->l));
    S->inflight--;
    if (!r && must && S->epoch == e0)
      violate("writer_trylock_failed_on_free_lock", "p_rwlock_writer_trylock", "lock free and unused, yet writer trylock returned FALSE");
    if (r) {
      S->writers++; order_ev(0, 4, cur()->id); check_shadow("p_rwlock_writer_trylock");
      probe("rw.trywrite_ok");
      body_write();
      unlock_writer();
    } else probe("rw.trywrite_busy");
    break;
  }
  default:
    yield_point();
  }
}

void barrier_reader(bool use_try) {
  // every reader keeps the lock until all N hold it: completes iff readers really share
  pboolean r;
  if (use_try) {
    bool must = S->writers == 0 && S->inflight == 0;
    S->inflight++; S->epoch++; uint64_t e0 = S->epoch;
    r = HX_API("p_rwlock_reader_trylock", 0, true, p_rwlock_reader_trylock(S->l));
    S->inflight--;
    if (!r && must && S->epoch == e0) violate("reader_trylock_failed_when_grantable", "p_rwlock_reader_trylock", "only readers hold the lock (%d), nobody else is using it, yet reader trylock returned FALSE", S->readers);
    if (!r) { // contention on the implementation's internal state is allowed to fail a try: fall back to the blocking call
      S->inflight++; S->epoch++;
      r = HX_API("p_rwlock_reader_lock", 0, false, p_rwlock_reader_lock(S->l));
      S->inflight--;
    }
  } else {
    S->inflight++; S->epoch++;
    r = HX_API("p_rwlock_reader_lock", 0, false, p_rwlock_reader_lock(S->l));
    S->inflight--;
  }
  if (!r) violate("lock_returned_false", "p_rwlock_reader_lock", "reader lock returned FALSE");
  S->readers++; check_shadow("barrier");
  S->barrier_arrived++;
  if (S->barrier_arrived < S->barrier_n) {
    while (S->barrier_arrived < S->barrier_n) block(B_BARRIER, 0);
  } else {
    probe("rw.all_readers_inside");
    for (int i = 0; i < ntasks(); i++) { Task *t = task(i); if (t->state == T_BLOCKED && t->bkind == B_BARRIER) wake(t); }
  }
  SIM_READ(S->data);
  unlock_reader();
}

void root() {
  S = new St();
  hooks().completion_required = true;
  lib_begin();
  S->l = HX_API("p_rwlock_new", 0, false, p_rwlock_new());
  if (!S->l) violate("new_returned_null", "", "p_rwlock_new returned NULL");
  int tier = cfg().tier;
  if (gen(7) == 0) {
    int n = (int)gen_range(2, tier ? 6 : 4);
    S->barrier_n = n;
    describe("mode=readers_barrier n=%d", n);
    for (int i = 0; i < n; i++) { bool t = gen(3) == 0; spawn(0, [t]() { barrier_reader(t); }); }
    wait_all_others();
  } else {
    int nt = (int)gen_range(2, tier ? 6 : 5);
    S->scripts.resize(nt);
    describe("mode=scripts tasks=%d ", nt);
    static const char *nm[] = {"r", "rt", "w", "wt", "."};
    for (int t = 0; t < nt; t++) {
      int n = (int)gen_range(1, tier ? 14 : 7);
      describe("[");
      for (int k = 0; k < n; k++) {
        uint32_t r = gen(10);
        uint8_t kind = r < 3 ? R_LOCK : r < 5 ? R_TRY : r < 7 ? W_LOCK : r < 9 ? W_TRY : THINK;
        S->scripts[t].push_back(kind);
        describe("%s%s", k ? "," : "", nm[kind]);
      }
      describe("]");
    }
    for (int t = 0; t < nt; t++) spawn(0, [t]() { for (uint8_t k : S->scripts[t]) step(k); });
    wait_all_others();
    SIM_READ(S->data);
    if (S->data != S->writes) violate("lost_update", "rwlock", "data=%ld after %ld write sections", S->data, S->writes);
  }
  HX_API_V("p_rwlock_free", 0, false, p_rwlock_free(S->l));
  lib_end();
  delete S; S = nullptr;
}

void configure(Config &c, Rng &) {
  swarm_schedule(c, 300);
  c.step_cap = 300000;
  static const double ps[] = {0, 0, 0.02, 0.1, 0.3};
  c.p[ST_SPURIOUS] = ps[gen(5)];
  static const double pr[] = {0, 0.2, 0.5, 1.0};
  c.p[ST_RWPREF] = pr[gen(4)];
}

}  // namespace

SIM_HARNESS(rwlock, "C02", root, configure)
