// C08 — PShmBuffer: one bounded FIFO byte queue for all handles of a name; memory safety; atomicity.
#include "common.h"
#include "linz.h"
#include "../sim/kernel.h"
#include <string.h>
#include <stdlib.h>
#include <deque>

using namespace hx;

namespace {

enum Kind { K_WRITE, K_READ, K_FREE, K_USED, K_CLEAR };
const char *kname[] = {"write", "read", "free", "used", "clear"};

struct Hnd { PShmBuffer *b = nullptr; int proc = 0; size_t size_arg = 0; bool live = false; int lock_obj = -1, seg_obj = -1; bool adopted_empty = false, created = false; };
struct St {
  size_t cap = 0;                 // creator's S
  Hnd hs[4]; int nh = 0, nh_reserved = 0;
  std::deque<uint8_t> model;      // sequential mode: stepped after every call
  std::vector<linz::Op> hist;
  uint32_t next_byte = 1;
  bool concurrent = false;
  bool smaller_handle_present = false;
};
St *S;

struct Fifo {
  std::string q; size_t cap;
  uint64_t hash() const { uint64_t h = 1469598103934665603ULL; for (unsigned char c : q) h = (h ^ c) * 1099511628211ULL; return h ^ (q.size() << 48); }
  bool apply(const linz::Op &o) {
    switch (o.kind) {
    case K_WRITE:
      if (o.a == 0) return (int64_t)o.result == 0 || (int64_t)o.result == -1;
      if (o.a <= cap - q.size()) { q += o.data; return o.result == o.a; }
      return o.result == 0;
    case K_READ: {
      if (o.a == 0) return (int64_t)o.result == 0 || (int64_t)o.result == -1;
      size_t n = std::min<size_t>(o.a, q.size());
      if (o.result != n) return false;
      if (q.compare(0, n, o.data) != 0) return false;
      q.erase(0, n);
      return true;
    }
    case K_FREE: return o.result == cap - q.size();
    case K_USED: return o.result == q.size();
    case K_CLEAR: q.clear(); return true;
    }
    return false;
  }
};

const char *bad_key(int hi, const char *dflt) {
  // a mismatch seen while a handle opened with a smaller size argument exists is attributed to that pattern
  (void)hi;
  return S->smaller_handle_present ? "open_size<existing_size" : dflt;
}

// one call through handle hi; records history (concurrent) or steps the model (sequential)
void do_op(int hi, int kind, size_t len) {
  Hnd &H = S->hs[hi];
  linz::Op o; o.task = cur()->id; o.kind = kind; o.a = len; o.obj = hi;
  int64_t res = 0;
  uint8_t *buf = nullptr;
  if (kind == K_WRITE) {
    buf = (uint8_t *)(g_flavour_tsan ? hb::guard_malloc(len ? len : 1) : malloc(len ? len : 1));       // exact size: red zones catch over-reads
    for (size_t i = 0; i < len; i++) { buf[i] = (uint8_t)(S->next_byte % 251 + 1); S->next_byte++; }
    o.data.assign((char *)buf, len);
  } else if (kind == K_READ) {
    buf = (uint8_t *)(g_flavour_tsan ? hb::guard_malloc(len ? len : 1) : malloc(len ? len : 1));
    memset(buf, 0xEE, len ? len : 1);
  }
  PError *err = nullptr;
  {
    ApiScope as(kname[kind], hi, false);
    o.inv = now_seq();
    switch (kind) {
    case K_WRITE: res = p_shm_buffer_write(H.b, buf, len, &err); break;
    case K_READ: res = p_shm_buffer_read(H.b, buf, len, &err); break;
    case K_FREE: res = p_shm_buffer_get_free_space(H.b, &err); break;
    case K_USED: res = p_shm_buffer_get_used_space(H.b, &err); break;
    case K_CLEAR: p_shm_buffer_clear(H.b); break;
    }
  }
  o.ret = now_seq();
  o.result = (uint64_t)res;
  if (kind == K_READ && res > 0) {
    if ((size_t)res > len) violate("read_returned_more_than_asked", bad_key(hi, "read"), "read(%zu) returned %lld", len, (long long)res);
    o.data.assign((char *)buf, (size_t)res);
  }
  if (kind == K_READ && len) for (size_t i = (res > 0 ? (size_t)res : 0); i < len; i++) if (buf[i] != 0xEE) violate("read_wrote_beyond_result", bad_key(hi, "read"), "read stored bytes beyond the count it returned");
  if (g_flavour_tsan) hb::guard_free(buf); else free(buf);
  order_ev(0, kind, cur()->id);
  if (S->concurrent) { S->hist.push_back(o); return; }
  // sequential: step the model and compare now
  Fifo f; f.cap = S->cap; f.q.assign(S->model.begin(), S->model.end());
  if (!f.apply(o)) {
    char what[64]; snprintf(what, sizeof what, "%s", kname[kind]);
    std::string exp;
    if (kind == K_READ) exp = "oldest " + std::to_string(std::min(len, S->model.size())) + " bytes";
    else if (kind == K_WRITE) exp = len <= S->cap - S->model.size() ? std::to_string(len) : "0";
    else if (kind == K_FREE) exp = std::to_string(S->cap - S->model.size());
    else exp = std::to_string(S->model.size());
    violate("fifo_mismatch", bad_key(hi, what), "%s(%zu) through handle %d (opened with size %zu) returned %lld, a FIFO of capacity %zu holding %zu bytes gives %s%s",
            kname[kind], len, hi, H.size_arg, (long long)res, S->cap, S->model.size(), exp.c_str(), kind == K_READ && (size_t)res == std::min(len, S->model.size()) ? " (wrong bytes)" : "");
  }
  S->model.assign(f.q.begin(), f.q.end());
  if (kind == K_WRITE && res > 0 && S->model.size() == S->cap) probe("buf.full_after_write");
  if (kind == K_WRITE && res > 0 && S->model.size() == S->cap && len > 1) probe("buf.write_exact_free");
  if (kind == K_READ && res > 0 && S->model.empty()) probe("buf.empty_after_read");
}

size_t pick_len(bool for_write) {
  size_t used = S->model.size(), cap = S->cap;
  switch (gen(9)) {
  case 0: return 0;
  case 1: return 1;
  case 2: return cap > 1 ? cap - 1 : 1;
  case 3: return cap;
  case 4: return cap + 1;
  case 5: return for_write ? (cap - used ? cap - used : 1) : (used ? used : 1);      // exactly the free / used space
  case 6: return for_write ? cap - used + 1 : used + 1;
  default: return 1 + gen((uint32_t)cap + 2);
  }
}

void ops_loop(int hi, int n) {
  for (int i = 0; i < n; i++) {
    uint32_t r = gen(12);
    int h = S->nh > 1 && !S->concurrent ? (int)gen((uint32_t)S->nh) : hi;
    if (!S->hs[h].live || S->hs[h].proc != cur()->proc) h = hi;
    if (r < 5) do_op(h, K_WRITE, pick_len(true));
    else if (r < 9) do_op(h, K_READ, pick_len(false));
    else if (r < 10) do_op(h, K_FREE, 0);
    else if (r < 11) do_op(h, K_USED, 0);
    else do_op(h, K_CLEAR, 0);
  }
}

int open_handle(size_t size_arg, bool racing_creator = false) {
  PError *err = nullptr;
  int slot = S->nh_reserved++;
  PShmBuffer *b = HX_API("p_shm_buffer_new", slot, false, p_shm_buffer_new("vp-buffer", size_arg, &err));
  if (!b) violate("new_failed", racing_creator ? "concurrent_first_time_creators" : slot ? "open_existing" : "create", "p_shm_buffer_new(%zu) returned NULL (native %d)%s", size_arg, err ? p_error_get_native_code(err) : 0,
                  racing_creator ? " while another process was creating the same name" : "");
  Hnd &H = S->hs[S->nh];
  H.b = b;
  H.proc = cur()->proc; H.size_arg = size_arg; H.live = true;
  H.lock_obj = kern::last_sem_obj(); H.seg_obj = kern::last_shm_obj();
  H.created = kern::last_shm_created();
  H.adopted_empty = !kern::last_shm_created() && kern::last_fstat_size() == 0;      // a handle made for a segment whose size the library had read as 0
  return S->nh++;
}

void root() {
  S = new St();
  hooks().completion_required = true;
  lib_begin();
  int tier = cfg().tier;
  static const size_t caps[] = {1, 2, 3, 5, 8, 16, 64, 255, 256, 4080, 4096, 9000};
  S->cap = gen(8) == 0 ? caps[7 + gen(5)] : caps[gen(7)];      // mostly tiny (full and empty are reached), sometimes across a page
  S->concurrent = gen(3) == 0;
  int nh = (int)gen_range(1, 3);
  // size arguments of the later handles: equal, larger, or (known-bad pattern, few runs) smaller
  std::vector<size_t> args(nh, S->cap);
  for (int i = 1; i < nh; i++) {
    uint32_t r = gen(16);
    if (r < 8) args[i] = S->cap; else if (r < 15) args[i] = S->cap + 1 + gen(5000); else if (S->cap > 1) { args[i] = 1 + gen((uint32_t)S->cap - 1); S->smaller_handle_present = true; }
  }
  // in a third of the concurrent runs a second process opens the same fresh name at the same time as the creator
  bool racing = S->concurrent && nh >= 2 && gen(3) == 0;
  if (racing) args[1] = S->cap;       // same size on both sides: whoever wins the race creates a buffer of this capacity
  describe("cap=%zu %s handles=[", S->cap, S->concurrent ? "concurrent" : "sequential");
  for (int i = 0; i < nh; i++) describe("%s%zu", i ? "," : "", args[i]);
  describe("]%s", racing ? " racing-first-open" : "");
  // creator in process 1 (possibly raced by a second process, decided above)
  Task *c = spawn(1, [&args, racing]() { open_handle(args[0], racing); });
  (void)c;
  if (racing) { spawn(2, [&args]() { open_handle(args[1], true); }); probe("buf.concurrent_first_open"); }
  wait_all_others();
  int first_late = racing ? 2 : 1;
  // whoever won the race created the buffer: its size argument is the capacity, the other one's was ignored
  if (racing) for (int h = 0; h < S->nh; h++) if (S->hs[h].created) S->cap = S->hs[h].size_arg;
  for (int h = 0; h < S->nh; h++) if (S->hs[h].size_arg < S->cap) S->smaller_handle_present = true;
  (void)first_late;
  if (!S->concurrent) {
    // all handles live in up to two processes; one task at a time
    for (int i = 1; i < nh; i++) { int proc = 1 + (int)gen(2); spawn(proc, [&args, i]() { open_handle(args[i]); }); wait_all_others(); }
    int rounds = (int)gen_range(1, 3);
    for (int r = 0; r < rounds; r++) {
      int proc = 1 + (int)gen(2);
      int hi = -1;
      for (int h = 0; h < S->nh; h++) if (S->hs[h].proc == proc) hi = h;
      if (hi < 0) { proc = 1; hi = 0; }
      int n = (int)gen_range(3, tier ? 30 : 14);
      spawn(proc, [hi, n]() { ops_loop(hi, n); });
      wait_all_others();
      // a handle opened while the queue holds data (possibly full) joins the same queue: opening changes nothing
      if (S->nh < 4 && gen(3) == 0) {
        size_t used0 = S->model.size();
        int np = 1 + (int)gen(2);
        size_t arg = gen(2) ? S->cap : S->cap + 1 + gen(3000);
        spawn(np, [arg]() { int h = open_handle(arg); do_op(h, K_USED, 0); });
        wait_all_others();
        probe(used0 == S->cap ? "buf.opened_while_full" : used0 ? "buf.opened_while_non_empty" : "buf.opened_while_empty");
      }
    }
    // invariant through every handle: used + free == capacity
    for (int h = 0; h < S->nh; h++) { spawn(S->hs[h].proc, [h]() { do_op(h, K_USED, 0); do_op(h, K_FREE, 0); }); wait_all_others(); }
  } else {
    for (int i = first_late; i < nh; i++) { int proc = 1 + i; spawn(proc, [&args, i]() { open_handle(args[i]); }); wait_all_others(); }
    for (int h = 1; h < S->nh; h++) {
      if (S->hs[h].seg_obj != S->hs[0].seg_obj) violate("creators_not_on_one_segment", "concurrent_first_time_creators", "handles of one buffer name ended up on different segments");
      if (S->hs[h].lock_obj != S->hs[0].lock_obj)
        violate("creators_on_different_locks", (S->hs[h].adopted_empty || S->hs[0].adopted_empty) ? "concurrent_first_time_creators,handle_on_segment_found_empty" : "concurrent_first_time_creators",
                "handles of one buffer name opened concurrently for the first time use different lock semaphores: their operations are not atomic with respect to each other");
    }
    int total = 0;
    for (int h = 0; h < S->nh; h++) { int n = (int)gen_range(2, tier ? 8 : 5); total += n; int proc = S->hs[h].proc; spawn(proc, [h, n]() { ops_loop(h, n); }); }
    if (S->nh == 1) { int n = (int)gen_range(2, 5); spawn(1, [n]() { ops_loop(0, n); }); }
    wait_all_others();
    Fifo f; f.cap = S->cap;
    if (S->hist.size() <= 40) {
      linz::Verdict v = linz::check(S->hist, f, 600000);
      if (v == linz::LIN_INCONCLUSIVE) probe("lin.inconclusive");
      else if (v == linz::LIN_VIOLATION) {
        std::string s;
        for (auto &o : S->hist) { char b[96]; snprintf(b, sizeof b, "t%d:%s(%llu)=%lld@[%llu,%llu] ", o.task, kname[o.kind], (unsigned long long)o.a, (long long)o.result, (unsigned long long)o.inv, (unsigned long long)o.ret); s += b; }
        violate("not_linearizable", bad_key(0, "concurrent"), "no sequential order of the calls explains the results as one FIFO of capacity %zu: %s", S->cap, s.substr(0, 700).c_str());
      } else probe("lin.concurrent_history_ok");
    } else probe("lin.history_too_long");
  }
  // free: creator last (it owns the segment)
  for (int h = S->nh - 1; h >= 0; h--) { spawn(S->hs[h].proc, [h]() { HX_API_V("p_shm_buffer_free", h, false, p_shm_buffer_free(S->hs[h].b)); }); wait_all_others(); }
  auto left = kern::names_bound();
  if (!left.empty()) violate("names_left_behind", "end", "%zu IPC name(s) remain, e.g. %s", left.size(), left[0].c_str());
  for (int p = 1; p <= 4; p++) if (kern::mapping_count(p)) violate("mapping_residue", "p_shm_buffer_free", "mapping left in process %d: %s", p, kern::mapping_desc(p).c_str());
  lib_end();
  delete S; S = nullptr;
}

void configure(Config &c, Rng &) {
  swarm_schedule(c, 300);
  c.step_cap = 300000;
  static const double pe[] = {0, 0, 0.05, 0.3};   // interrupted lock waits (sem_wait / shm_open / sem_open answer EINTR): the buffer lock must still be taken exactly once
  c.p[ST_EINTR] = pe[gen(4)];
}

}  // namespace

SIM_HARNESS(shmbuf, "C08", root, configure)
