// C10 — socket modes and lifecycle: timeouts on the simulated clock, non-blocking, closed state, getters, FD_CLOEXEC.
#include "common.h"
#include "../sim/kernel.h"
#include "../sim/knet.h"
#include "../sim/rawsys.h"
#include <arpa/inet.h>
#include <netinet/in.h>
#include <string.h>
#include <stdlib.h>
#include <errno.h>

using namespace hx;

namespace {

struct Model { bool blocking = true; int timeout = 0; bool keepalive = false; int backlog = 5; bool connected = false, listening = false, closed = false, bound = false; bool stream = true; };
struct LS { PSocket *s = nullptr; Model m; int id = 0; };

struct St {
  PSocketFamily fam; int af;
  LS a, b;                 // b: accepted socket (server scenario)
  bool have_b = false;
  // scripted raw peer
  int p_lfd = -1, p_cfd = -1, p_ufd = -1; int p_port = 0, lib_port = 0;
  // at most one pending peer action that can enable a waiting call
  bool pend_fired = false;                     // the scheduled peer action has been carried out (its effect may already have been consumed)
  uint64_t pend_at = 0; int pend_kind = 0;     // 1 data for A/B stream, 2 connect to lib listener, 3 datagram to lib udp, 4 peer closes connection, 5 peer drains what we sent
  int peer_tasks = 0;
  bool small_bufs = false;
  std::vector<int> raw_fds;      // every descriptor the scripted peer opened (closed at the end)
};
St *S;

int ecode(PError *e) { return e ? p_error_get_code(e) : 0; }
void drop(PError **e) { if (*e) { p_error_free(*e); *e = nullptr; } }

void mk_sockaddr(int port, struct sockaddr_storage *ss, socklen_t *len) {
  // the raw peer uses the library's own idea of "loopback" (127.0.0.0 for IPv4), converted by the library itself
  memset(ss, 0, sizeof *ss);
  PSocketAddress *a = p_socket_address_new_loopback(S->fam, (puint16)port);
  p_socket_address_to_native(a, ss, sizeof *ss);
  *len = (socklen_t)p_socket_address_get_native_size(a);
  p_socket_address_free(a);
}
int raw_port_of(int fd) {
  struct sockaddr_storage ss; socklen_t l = sizeof ss;
  simk_getsockname(fd, (struct sockaddr *)&ss, &l);
  return ntohs(S->af == AF_INET ? ((struct sockaddr_in *)&ss)->sin_port : ((struct sockaddr_in6 *)&ss)->sin6_port);
}

void check_getters(LS &L, const char *after) {
  Model &m = L.m;
  PSocket *s = L.s;
  struct { const char *name; long got, want; } g[] = {
    {"is_closed", (long)p_socket_is_closed(s), (long)m.closed},
    {"is_connected", (long)p_socket_is_connected(s), (long)m.connected},
    {"get_blocking", (long)p_socket_get_blocking(s), (long)m.blocking},
    {"get_timeout", (long)p_socket_get_timeout(s), (long)m.timeout},
    {"get_keepalive", (long)p_socket_get_keepalive(s), (long)m.keepalive},
    {"get_listen_backlog", (long)p_socket_get_listen_backlog(s), (long)m.backlog},
    {"get_type", (long)p_socket_get_type(s), (long)(m.stream ? P_SOCKET_TYPE_STREAM : P_SOCKET_TYPE_DATAGRAM)},
    {"get_family", (long)p_socket_get_family(s), (long)S->fam},
  };
  for (auto &x : g) if (x.got != x.want) violate("getter_mismatch", x.name, "after %s: p_socket_%s returns %ld, the calls made so far imply %ld", after, x.name, x.got, x.want);
  if (m.closed && p_socket_get_fd(s) != -1) violate("getter_mismatch", "get_fd", "closed socket still reports descriptor %d", p_socket_get_fd(s));
}

// kernel-level readiness of the library socket (ground truth for "can proceed now")
kern::SockObj *ko(LS &L) { return L.m.closed ? nullptr : kern::sock_of_fd(0, p_socket_get_fd(L.s)); }
bool readable_now(LS &L) {
  kern::SockObj *o = ko(L); if (!o) return false;
  if (!L.m.stream) return !o->dq.empty();
  if (o->state == kern::SS_LISTEN) return !o->accept_q.empty();
  return !o->rx.empty() || o->rx_fin || o->rx_rst || o->shut_rd;
}

bool writable_now(LS &L) {
  kern::SockObj *o = ko(L); if (!o) return false;
  if (!L.m.stream) return true;
  return o->wire.size() < (size_t)o->sndbuf || o->shut_wr || o->peer_gone || o->rx_rst;
}

enum IoKind { IO_RECEIVE, IO_RECEIVE_FROM, IO_ACCEPT, IO_WAIT_IN, IO_SEND, IO_SEND_TO, IO_WAIT_OUT, IO_CONNECT, IO_SHUTDOWN, IO_BIND, IO_LISTEN, IO_SETBUF };
const char *io_name[] = {"p_socket_receive", "p_socket_receive_from", "p_socket_accept", "p_socket_io_condition_wait", "p_socket_send", "p_socket_send_to", "p_socket_io_condition_wait",
                         "p_socket_connect", "p_socket_shutdown", "p_socket_bind", "p_socket_listen", "p_socket_set_buffer_size"};

struct IoResult { bool ok; int code; uint64_t dt; uint64_t nsys; pssize n; PSocket *accepted; };

IoResult io_call(LS &L, IoKind k, int arg = 0) {
  IoResult r{false, 0, 0, 0, 0, nullptr};
  PError *e = nullptr;
  char buf[256];
  uint64_t t0 = now_ns();
  Task *t = cur();
  uint64_t sys0 = t->syscalls;
  struct sockaddr_storage ss; socklen_t sl;
  {
    ApiScope as(io_name[k], L.id, !L.m.blocking && k != IO_WAIT_IN && k != IO_WAIT_OUT);
    switch (k) {
    case IO_RECEIVE: r.n = p_socket_receive(L.s, buf, sizeof buf, &e); r.ok = r.n >= 0; break;
    case IO_RECEIVE_FROM: { PSocketAddress *from = nullptr; r.n = p_socket_receive_from(L.s, &from, buf, sizeof buf, &e); r.ok = r.n >= 0; if (from) p_socket_address_free(from); break; }
    case IO_ACCEPT: r.accepted = p_socket_accept(L.s, &e); r.ok = r.accepted != nullptr; break;
    case IO_WAIT_IN: r.ok = p_socket_io_condition_wait(L.s, P_SOCKET_IO_CONDITION_POLLIN, &e); break;
    case IO_WAIT_OUT: r.ok = p_socket_io_condition_wait(L.s, P_SOCKET_IO_CONDITION_POLLOUT, &e); break;
    case IO_SEND: memset(buf, 'x', sizeof buf); r.n = p_socket_send(L.s, buf, 1 + (size_t)arg % 200, &e); r.ok = r.n >= 0; break;
    case IO_SEND_TO: { PSocketAddress *to = p_socket_address_new_loopback(S->fam, (puint16)arg); memset(buf, 'y', sizeof buf); r.n = p_socket_send_to(L.s, to, buf, 33, &e); r.ok = r.n >= 0; p_socket_address_free(to); break; }
    case IO_CONNECT: { PSocketAddress *to = p_socket_address_new_loopback(S->fam, (puint16)arg); r.ok = p_socket_connect(L.s, to, &e); p_socket_address_free(to); break; }
    case IO_SHUTDOWN: r.ok = p_socket_shutdown(L.s, arg & 1, (arg >> 1) & 1, &e); break;
    case IO_BIND: { PSocketAddress *a = p_socket_address_new_loopback(S->fam, (puint16)arg); r.ok = p_socket_bind(L.s, a, TRUE, &e); p_socket_address_free(a); break; }
    case IO_LISTEN: r.ok = p_socket_listen(L.s, &e); break;
    case IO_SETBUF: r.ok = p_socket_set_buffer_size(L.s, arg & 1 ? P_SOCKET_DIRECTION_RCV : P_SOCKET_DIRECTION_SND, 1024 + (size_t)arg, &e); break;
    }
  }
  (void)ss; (void)sl;
  r.dt = now_ns() - t0;
  r.nsys = t->syscalls - sys0;
  r.code = ecode(e);
  drop(&e);
  if (L.m.closed) {
    // after p_socket_close every I/O call fails with a not-available error without touching any descriptor
    if (r.ok) violate("io_succeeded_on_closed_socket", io_name[k], "%s succeeded on a closed socket", io_name[k]);
    if (r.code != P_ERROR_IO_NOT_AVAILABLE) violate("closed_socket_wrong_error", io_name[k], "%s on a closed socket failed with code %d, documented NOT_AVAILABLE (%d)", io_name[k], r.code, P_ERROR_IO_NOT_AVAILABLE);
    if (r.nsys != 0) violate("closed_socket_touched_descriptor", io_name[k], "%s on a closed socket issued %llu system call(s)", io_name[k], (unsigned long long)r.nsys);
    probe("state.io_on_closed");
  }
  return r;
}

// a call that may have to wait: classify against mode, timeout and the pending peer action
void waiting_call(LS &L, IoKind k, bool ready_now, int enabling_kind) {
  Model &m = L.m;
  if (m.closed) { io_call(L, k); return; }
  // a pending peer action enables the call only if it is still to come (a connect takes up to ~0.3 ms to complete after it was issued)
  // (an action that has already been carried out enables nothing any more - except a connect, which completes up to ~0.3 ms after it was issued)
  bool will_be_enabled = S->pend_kind == enabling_kind && S->pend_at > 0 &&
                         (!S->pend_fired || (enabling_kind == 2 && S->pend_at + 300000ULL >= now_ns()));
  bool explicit_wait = k == IO_WAIT_IN || k == IO_WAIT_OUT;
  if (!ready_now && (m.blocking || explicit_wait) && m.timeout == 0 && !will_be_enabled) return;    // would wait for ever: never generated
  uint64_t t0 = now_ns();
  uint64_t pend_at = S->pend_at;
  IoResult r = io_call(L, k);
  uint64_t T = (uint64_t)m.timeout * 1000000ULL;
  if (ready_now) {
    if (!r.ok && (r.code == P_ERROR_IO_WOULD_BLOCK || r.code == P_ERROR_IO_TIMED_OUT))
      violate("ready_call_did_not_proceed", io_name[k], "%s had something to do but failed with code %d", io_name[k], r.code);
    if (r.accepted) { S->b.s = r.accepted; }
    if (r.ok && S->pend_kind == enabling_kind && S->pend_fired) { S->pend_at = 0; S->pend_kind = 0; S->pend_fired = false; }
    return;
  }
  if (!m.blocking && !explicit_wait) {
    if (r.ok) violate("nonblocking_call_waited", io_name[k], "non-blocking %s succeeded although nothing was ready", io_name[k]);
    if (r.code != P_ERROR_IO_WOULD_BLOCK) violate("nonblocking_wrong_error", io_name[k], "non-blocking %s with nothing to do failed with code %d, expected WOULD_BLOCK", io_name[k], r.code);
    if (r.dt != 0) violate("nonblocking_call_waited", io_name[k], "non-blocking %s took %llu ns of simulated time", io_name[k], (unsigned long long)r.dt);
    probe("state.nonblocking_would_block");
    return;
  }
  // blocking (or the explicit wait primitive)
  if (r.ok) {
    // success is legitimate only if the enabling peer action happened before the call returned
    // (an interrupted wait is restarted with the full timeout, so the call may outlast T: never checked against T here)
    if (!(will_be_enabled && pend_at <= now_ns()))
      violate("call_succeeded_with_nothing_to_do", io_name[k], "%s succeeded although nothing was ready and nothing became ready", io_name[k]);
    if (pend_at > t0 && r.dt + 1 < pend_at - t0) violate("blocking_call_returned_before_event", io_name[k], "%s returned after %llu ns, the enabling event came after %llu ns", io_name[k], (unsigned long long)r.dt, (unsigned long long)(pend_at - t0));
    probe("state.blocking_waited_for_peer");
    if (r.accepted) S->b.s = r.accepted;
    S->pend_at = 0; S->pend_kind = 0; S->pend_fired = false;
    return;
  }
  // failure of a waiting call: must be a time-out, not before T, and not although the peer acted comfortably in time
  if (r.code != P_ERROR_IO_TIMED_OUT) violate("timeout_wrong_error", io_name[k], "blocking %s with timeout %d ms and nothing to do failed with code %d, expected TIMED_OUT", io_name[k], m.timeout, r.code);
  if (T == 0) violate("timed_out_without_timeout", io_name[k], "blocking %s without timeout reported a time-out", io_name[k]);
  if (r.dt < T) violate("timed_out_early", io_name[k], "%s with timeout %d ms reported a time-out after only %llu us of simulated time", io_name[k], m.timeout, (unsigned long long)(r.dt / 1000));
  if (will_be_enabled && pend_at + 6000000ULL < t0 + T)
    violate("blocking_call_gave_up", io_name[k], "blocking %s timed out although the peer acted %lld us after the call started (timeout %d ms)", io_name[k], (long long)(((int64_t)pend_at - (int64_t)t0) / 1000), m.timeout);
  probe("state.timed_out_on_time");
  if (m.timeout >= 1000) probe("state.long_timeout_cost_nothing");
}

void peer_action_after(int kind, uint64_t delay_us) {
  if (S->pend_kind) return;
  uint64_t at = now_ns() + delay_us * 1000;
  S->pend_at = at; S->pend_kind = kind; S->pend_fired = false;
  S->peer_tasks++;
  spawn(0, [kind, at]() {
    sleep_until(at);
    kern::RawScope raw;
    sim::SimScope atomic_action;      // the scripted peer acts in one indivisible step (its calls never block)
    struct sockaddr_storage ss; socklen_t sl;
    char payload[64]; memset(payload, 'p', sizeof payload);
    if (kind == 1 && S->p_cfd >= 0) simk_send(S->p_cfd, payload, 40, MSG_NOSIGNAL);
    else if (kind == 2) { int fd = simk_socket(S->af, SOCK_STREAM | SOCK_NONBLOCK, 0); mk_sockaddr(S->lib_port, &ss, &sl); simk_connect(fd, (struct sockaddr *)&ss, sl); S->p_cfd = fd; S->raw_fds.push_back(fd); }
    else if (kind == 3 && S->p_ufd >= 0) { mk_sockaddr(S->lib_port, &ss, &sl); simk_sendto(S->p_ufd, payload, 50, 0, (struct sockaddr *)&ss, sl); }
    else if (kind == 4 && S->p_cfd >= 0) { simk_shutdown(S->p_cfd, SHUT_RDWR); }
    else if (kind == 5 && S->p_cfd >= 0) { char sink[4096]; while (simk_recv(S->p_cfd, sink, sizeof sink, MSG_DONTWAIT) > 0) {} }
    S->pend_fired = true;
    S->peer_tasks--;
  });
}

// A call that FAILS on an open socket changes nothing: the getters still reflect the calls that succeeded so far.
// kind 0: listen (system call refused), 1: keepalive option refused, 2: bind refused
void failed_call(LS &L) {
  Model &m = L.m;
  if (m.closed) return;
  switch (gen(3)) {
  case 0: {
    if (m.listening || m.connected) return;
    int kth = kern::calls_made(kern::SC_LISTEN) + 1;
    if (m.stream) kern::plan_fail(kern::SC_LISTEN, kth, EADDRINUSE);    // a datagram socket refuses by itself
    IoResult r = io_call(L, IO_LISTEN);
    kern::unplan_fail(kern::SC_LISTEN, kth);
    if (r.ok) violate("call_succeeded_although_refused", "p_socket_listen", "p_socket_listen returned TRUE although listen() was refused");
    probe("state.failed_listen");
    break;
  }
  case 1: {
    bool want = !m.keepalive;
    int kth = kern::calls_made(kern::SC_SETSOCKOPT) + 1;
    kern::plan_fail(kern::SC_SETSOCKOPT, kth, ENOPROTOOPT);
    HX_API_V("p_socket_set_keepalive", L.id, false, p_socket_set_keepalive(L.s, want));
    kern::unplan_fail(kern::SC_SETSOCKOPT, kth);
    probe("state.failed_keepalive");
    break;
  }
  default: {
    if (m.bound || m.listening || m.connected) return;
    int kth = kern::calls_made(kern::SC_BIND) + 1;
    kern::plan_fail(kern::SC_BIND, kth, EADDRINUSE);
    IoResult r = io_call(L, IO_BIND, 0);
    kern::unplan_fail(kern::SC_BIND, kth);
    if (r.ok) violate("call_succeeded_although_refused", "p_socket_bind", "p_socket_bind returned TRUE although bind() was refused");
    probe("state.failed_bind");
  }
  }
  check_getters(L, "a call that failed");
}

void set_ops(LS &L) {
  Model &m = L.m;
  switch (gen(5)) {
  case 0: { bool b = gen(2); static const int truthy[] = {TRUE, 2, 4, 256, -2};   /* pboolean is an int: any non-zero value asks for blocking mode */
            int arg = b ? (gen(3) == 0 ? truthy[1 + gen(4)] : TRUE) : FALSE;
            HX_API_V("p_socket_set_blocking", L.id, false, p_socket_set_blocking(L.s, arg)); m.blocking = b; break; }
  case 1: { static const int ts[] = {0, 1, 50, 1000, 60000, -5, -1, 4294968, 2147483647}; int t = ts[gen(20) == 0 ? 6 + gen(3) : gen(6)];  /* rarely: -1, and values whose micro/nanosecond form needs more than 32 bits */ HX_API_V("p_socket_set_timeout", L.id, false, p_socket_set_timeout(L.s, t)); m.timeout = t < 0 ? 0 : t; break; }
  case 2: { bool kalive = gen(2); HX_API_V("p_socket_set_keepalive", L.id, false, p_socket_set_keepalive(L.s, kalive));
            if (!m.closed) m.keepalive = kalive;      // on a closed socket the option cannot be applied: the getter keeps its value
            break; }
  case 3: { int bl = 1 + (int)gen(9); HX_API_V("p_socket_set_listen_backlog", L.id, false, p_socket_set_listen_backlog(L.s, bl)); if (!m.listening) m.backlog = bl; else probe("state.backlog_ignored_after_listen"); break; }
  default: if (!m.closed) { IoResult r = io_call(L, IO_SETBUF, (int)gen(5000)); if (!r.ok) violate("set_buffer_size_failed", "p_socket_set_buffer_size", "failed with code %d on an open socket", r.code); } else io_call(L, IO_SETBUF, 3);
  }
  check_getters(L, "option call");
}

void do_close(LS &L) {
  uint64_t closes0 = kern::closes_total(); int bad0 = kern::bad_closes();
  PError *e = nullptr;
  bool was_closed = L.m.closed;
  pboolean r = HX_API("p_socket_close", L.id, false, p_socket_close(L.s, &e));
  drop(&e);
  if (!r) violate("close_failed", "p_socket_close", "p_socket_close returned FALSE");
  if (was_closed) {
    if (kern::closes_total() != closes0 || kern::bad_closes() != bad0) violate("second_close_touched_descriptor", "p_socket_close", "closing an already closed socket issued close() again");
    probe("state.close_idempotent");
  } else if (kern::closes_total() != closes0 + 1) violate("close_did_not_close", "p_socket_close", "p_socket_close issued %llu close() calls", (unsigned long long)(kern::closes_total() - closes0));
  if (kern::bad_closes() != bad0) violate("bad_close", "p_socket_close", "close() hit a descriptor that was not open");
  L.m.closed = true; L.m.connected = false; L.m.listening = false;
  check_getters(L, "p_socket_close");
}

void post_close_ops(LS &L) {
  int n = (int)gen_range(2, 6);
  for (int i = 0; i < n; i++) {
    switch (gen(10)) {
    case 0: io_call(L, L.m.stream ? IO_RECEIVE : IO_RECEIVE_FROM); break;
    case 1: io_call(L, IO_SEND, 5); break;
    case 2: io_call(L, IO_SEND_TO, S->p_port ? S->p_port : 9); break;
    case 3: io_call(L, IO_ACCEPT); break;
    case 4: io_call(L, IO_CONNECT, S->p_port ? S->p_port : 9); break;
    case 5: io_call(L, gen(2) ? IO_WAIT_IN : IO_WAIT_OUT); break;
    case 6: io_call(L, IO_SHUTDOWN, 3); break;
    case 7: io_call(L, gen(2) ? IO_BIND : IO_LISTEN, 0); break;
    case 8: do_close(L); break;
    default: set_ops(L);
    }
    check_getters(L, "call on closed socket");
  }
}

void new_socket(LS &L, bool stream, int id) {
  PError *e = nullptr;
  L.id = id; L.m = Model(); L.m.stream = stream;
  L.s = HX_API("p_socket_new", id, false, p_socket_new(S->fam, stream ? P_SOCKET_TYPE_STREAM : P_SOCKET_TYPE_DATAGRAM, stream ? P_SOCKET_PROTOCOL_TCP : P_SOCKET_PROTOCOL_UDP, &e));
  if (!L.s) violate("socket_new_failed", "p_socket_new", "p_socket_new failed (code %d)", ecode(e));
  if (!kern::fd_cloexec(0, p_socket_get_fd(L.s))) violate("no_cloexec", "p_socket_new", "descriptor of a new socket lacks close-on-exec");
  check_getters(L, "p_socket_new");
}

// operations on a connected stream socket whose peer is the raw descriptor S->p_cfd
void connected_ops(LS &L, int n) {
  for (int i = 0; i < n; i++) {
    switch (gen(9)) {
    case 0: case 1: waiting_call(L, IO_RECEIVE, readable_now(L), 1); break;
    case 2: peer_action_after(1, 100 + gen(3) * 40000 + gen(500000)); break;
    case 3: waiting_call(L, IO_WAIT_IN, readable_now(L), 1); break;
    case 4: waiting_call(L, IO_SEND, writable_now(L), 5); break;
    case 5: waiting_call(L, IO_WAIT_OUT, writable_now(L), 5); break;
    case 6:
      if (S->small_bufs && !L.m.closed && gen(2)) {
        // back-pressure: fill the send path until the kernel would block, then a send "cannot proceed" until the peer drains
        bool was_blocking = L.m.blocking;
        p_socket_set_blocking(L.s, FALSE); L.m.blocking = false;
        for (int i = 0; i < 200 && writable_now(L); i++) { IoResult r = io_call(L, IO_SEND, 199); if (!r.ok) break; }
        p_socket_set_blocking(L.s, was_blocking); L.m.blocking = was_blocking;
        if (!writable_now(L)) {
          probe("state.send_path_full");
          if (gen(2)) peer_action_after(5, 100 + gen(3) * 40000 + gen(200000));
          waiting_call(L, IO_SEND, false, 5);
        }
      } else set_ops(L);
      break;
    case 7: if (gen(4) == 0) { int how = 1 + (int)gen(3); IoResult r = io_call(L, IO_SHUTDOWN, how); if (r.ok && how == 3 && !L.m.closed) L.m.connected = false; }
            else if (gen(3) == 0 && !L.m.closed && L.m.connected) {
              // connecting again a socket that has its peer: whatever the call answers (done already, or "is connected"), the peer stays
              io_call(L, IO_CONNECT, S->p_port ? S->p_port : 9);
              probe("state.reconnect_attempt_on_connected_socket");
            }
            break;
    default: if (gen(4) == 0) failed_call(L); else set_ops(L);
    }
    check_getters(L, "operation on connected socket");
  }
}

void scenario_client() {
  // raw peer: a listener (or nobody, or a listener whose backlog is full)
  uint32_t target = gen(5);   // 0-2 listener, 3 nobody, 4 full backlog
  struct sockaddr_storage ss; socklen_t sl;
  kern::faults_off(true);
  describe("scenario=client target=%s", target <= 2 ? "listener" : target == 3 ? "nobody" : "full_backlog");
  if (target != 3) {
    S->p_lfd = simk_socket(S->af, SOCK_STREAM | SOCK_NONBLOCK, 0); S->raw_fds.push_back(S->p_lfd);
    mk_sockaddr(0, &ss, &sl); simk_bind(S->p_lfd, (struct sockaddr *)&ss, sl);
    simk_listen(S->p_lfd, target == 4 ? 0 : 3);
    S->p_port = raw_port_of(S->p_lfd);
    if (target == 4) { int f = simk_socket(S->af, SOCK_STREAM | SOCK_NONBLOCK, 0); mk_sockaddr(S->p_port, &ss, &sl); simk_connect(f, (struct sockaddr *)&ss, sl); sleep_until(now_ns() + 5000000); S->raw_fds.push_back(f); }
  } else { S->p_port = 50000 + (int)gen(1000); }
  kern::faults_off(false);
  LS &A = S->a;
  new_socket(A, true, 0);
  int pre = (int)gen(4);
  for (int i = 0; i < pre; i++) { if (gen(5) == 0) failed_call(A); else set_ops(A); }
  if (gen(3) == 0) { IoResult r = io_call(A, IO_BIND, 0); if (!r.ok) violate("bind_failed", "p_socket_bind", "bind to loopback:0 failed (code %d)", r.code); A.m.bound = true; }
  // connect
  Model &m = A.m;
  if (target == 4 && m.blocking && m.timeout == 0) { HX_API_V("p_socket_set_timeout", 0, false, p_socket_set_timeout(A.s, 50)); m.timeout = 50; }
  uint64_t t0 = now_ns();
  IoResult r = io_call(A, IO_CONNECT, S->p_port);
  uint64_t T = (uint64_t)m.timeout * 1000000ULL;
  if (!m.blocking) {
    if (r.ok) violate("nonblocking_call_waited", "p_socket_connect", "non-blocking connect reported success at once");
    if (r.code != P_ERROR_IO_IN_PROGRESS) violate("nonblocking_wrong_error", "p_socket_connect", "non-blocking connect failed with code %d, expected IN_PROGRESS", r.code);
    if (r.dt != 0) violate("nonblocking_call_waited", "p_socket_connect", "non-blocking connect took %llu ns of simulated time", (unsigned long long)r.dt);
    probe("state.connect_in_progress");
    // explicit wait, then the result
    IoResult w = io_call(A, IO_WAIT_OUT);
    if (target == 4) {
      // the stalled attempt is given up by the (simulated) kernel itself after ~130 s; a shorter timeout must expire first
      bool kernel_gave_up = now_ns() - t0 >= 125000000000ULL;    // interrupted waits restart with the full timeout and may add up beyond the kernel's own limit
      if (T > 0 && T < 100000000000ULL && !kernel_gave_up) {
        if (w.ok) violate("call_succeeded_with_nothing_to_do", "p_socket_io_condition_wait", "POLLOUT wait succeeded while the connection is stalled");
        if (w.code != P_ERROR_IO_TIMED_OUT) violate("timeout_wrong_error", "p_socket_io_condition_wait", "code %d, expected TIMED_OUT", w.code);
        if (w.dt < T) violate("timed_out_early", "p_socket_io_condition_wait", "wait with timeout %d ms gave up after %llu us", m.timeout, (unsigned long long)(w.dt / 1000));
      }
    }
    else {
      if (!w.ok && !(T > 0 && T < 60000000ULL)) violate("wait_failed", "p_socket_io_condition_wait", "waiting for the connection failed with code %d", w.code);
      if (w.ok && target <= 2 && gen(4) == 0) {
        // the caller does not ask for the result: the connection is established all the same and data can be sent
        probe("state.connected_without_asking");
        { kern::RawScope raw; struct pollfd pf{S->p_lfd, POLLIN, 0}; simk_poll(&pf, 1, 1000); S->p_cfd = simk_accept(S->p_lfd, nullptr, nullptr); if (S->p_cfd >= 0) S->raw_fds.push_back(S->p_cfd); }
        IoResult sr = io_call(A, IO_SEND, 5);
        if (!sr.ok) violate("send_failed_on_established_connection", "p_socket_send", "send on a connection that the wait reported as established failed with code %d", sr.code);
        check_getters(A, "send after an unchecked connect");
        return;
      }
      if (w.ok) {
        PError *e = nullptr;
        pboolean okc = HX_API("p_socket_check_connect_result", 0, false, p_socket_check_connect_result(A.s, &e));
        int c = ecode(e); drop(&e);
        if (target <= 2) { if (!okc) violate("connect_failed", "p_socket_check_connect_result", "connection to a listener failed (code %d)", c); m.connected = true; }
        else { if (okc) violate("connect_to_nobody_succeeded", "p_socket_check_connect_result", "connection to a port nobody listens on succeeded"); if (c != P_ERROR_IO_CONNECTION_REFUSED) violate("wrong_connect_error", "p_socket_check_connect_result", "code %d, expected CONNECTION_REFUSED", c); m.connected = false; probe("state.connect_refused"); }
      }
    }
  } else {
    if (target <= 2) {
      if (!r.ok && !(T > 0 && T < 60000000ULL)) violate("connect_failed", "p_socket_connect", "blocking connect to a listener failed (code %d)", r.code);
      if (r.ok) { m.connected = true; if (r.dt == 0) violate("connect_took_no_time", "p_socket_connect", "blocking connect completed in zero simulated time"); }
    } else if (target == 3) {
      if (r.ok) violate("connect_to_nobody_succeeded", "p_socket_connect", "connection to a port nobody listens on succeeded");
      if (r.code != P_ERROR_IO_CONNECTION_REFUSED && !(T > 0 && T < 60000000ULL && r.code == P_ERROR_IO_TIMED_OUT)) violate("wrong_connect_error", "p_socket_connect", "code %d, expected CONNECTION_REFUSED", r.code);
      probe("state.connect_refused");
    } else {
      if (r.ok) violate("call_succeeded_with_nothing_to_do", "p_socket_connect", "connect to a listener with a full backlog succeeded");
      if (r.code != P_ERROR_IO_TIMED_OUT) violate("timeout_wrong_error", "p_socket_connect", "stalled connect with timeout %d ms failed with code %d, expected TIMED_OUT", m.timeout, r.code);
      // (the simulated kernel itself gives a stalled attempt up after ~130 s with ETIMEDOUT: a longer socket timeout never gets its turn)
      if (now_ns() - t0 < T && now_ns() - t0 < 125000000000ULL) violate("timed_out_early", "p_socket_connect", "stalled connect with timeout %d ms gave up after %llu us", m.timeout, (unsigned long long)((now_ns() - t0) / 1000));
      probe("state.connect_stalled_timed_out");
    }
  }
  check_getters(A, "p_socket_connect");
  if (m.connected && target <= 2) {
    // the raw peer accepts
    { kern::RawScope raw; struct pollfd pf{S->p_lfd, POLLIN, 0};
    simk_poll(&pf, 1, 1000);
    S->p_cfd = simk_accept(S->p_lfd, nullptr, nullptr); if (S->p_cfd >= 0) S->raw_fds.push_back(S->p_cfd); }
    connected_ops(A, (int)gen_range(2, cfg().tier ? 20 : 10));
  } else {
    int n = (int)gen(3);
    for (int i = 0; i < n; i++) set_ops(A);
  }
}

void scenario_server() {
  describe("scenario=server");
  LS &A = S->a;
  new_socket(A, true, 0);
  int pre = (int)gen(4);
  for (int i = 0; i < pre; i++) { if (gen(4) == 0) failed_call(A); else set_ops(A); }
  IoResult r = io_call(A, IO_BIND, 0);
  if (!r.ok) violate("bind_failed", "p_socket_bind", "bind failed (code %d)", r.code);
  A.m.bound = true;
  int post = (int)gen(3);
  for (int i = 0; i < post; i++) { if (gen(2) == 0) failed_call(A); else set_ops(A); }
  r = io_call(A, IO_LISTEN);
  if (!r.ok) violate("listen_failed", "p_socket_listen", "listen failed (code %d)", r.code);
  A.m.listening = true;
  check_getters(A, "p_socket_listen");
  if (ko(A) && ko(A)->backlog != A.m.backlog) violate("listen_backlog_not_applied", "p_socket_listen", "listen() was given backlog %d, the calls made so far imply %d", ko(A)->backlog, A.m.backlog);
  PError *e = nullptr;
  PSocketAddress *la = p_socket_get_local_address(A.s, &e);
  S->lib_port = la ? p_socket_address_get_port(la) : 0;
  if (la) p_socket_address_free(la);
  int n = (int)gen_range(2, 8);
  for (int i = 0; i < n && !S->have_b; i++) {
    switch (gen(5)) {
    case 0: case 1: {
      S->b.s = nullptr;
      waiting_call(A, IO_ACCEPT, readable_now(A), 2);
      if (S->b.s) {
        S->have_b = true; S->b.id = 1; S->b.m = Model(); S->b.m.connected = true; S->b.m.stream = true;
        if (!kern::fd_cloexec(0, p_socket_get_fd(S->b.s))) violate("no_cloexec", "p_socket_accept", "descriptor of an accepted socket lacks close-on-exec");
        if (p_socket_get_protocol(S->b.s) != P_SOCKET_PROTOCOL_TCP) violate("getter_mismatch", "get_protocol", "accepted socket has protocol %d", (int)p_socket_get_protocol(S->b.s));
        check_getters(S->b, "p_socket_accept");
        probe("state.accepted");
      }
      break;
    }
    case 2: peer_action_after(2, 100 + gen(3) * 40000 + gen(300000)); break;
    case 3: waiting_call(A, IO_WAIT_IN, readable_now(A), 2); break;
    default: set_ops(A);
    }
    check_getters(A, "listener operation");
  }
  if (S->have_b) connected_ops(S->b, (int)gen_range(2, cfg().tier ? 16 : 8));
}

void scenario_udp() {
  describe("scenario=udp");
  struct sockaddr_storage ss; socklen_t sl;
  { kern::RawScope raw;
  S->p_ufd = simk_socket(S->af, SOCK_DGRAM | SOCK_NONBLOCK, 0); S->raw_fds.push_back(S->p_ufd);
  mk_sockaddr(0, &ss, &sl); simk_bind(S->p_ufd, (struct sockaddr *)&ss, sl);
  S->p_port = raw_port_of(S->p_ufd); }
  LS &A = S->a;
  new_socket(A, false, 0);
  IoResult r = io_call(A, IO_BIND, 0);
  if (!r.ok) violate("bind_failed", "p_socket_bind", "bind failed (code %d)", r.code);
  A.m.bound = true;
  PError *e = nullptr;
  PSocketAddress *la = p_socket_get_local_address(A.s, &e);
  S->lib_port = la ? p_socket_address_get_port(la) : 0;
  if (la) p_socket_address_free(la);
  int n = (int)gen_range(3, cfg().tier ? 20 : 10);
  for (int i = 0; i < n; i++) {
    switch (gen(8)) {
    case 0: case 1: waiting_call(A, IO_RECEIVE_FROM, readable_now(A), 3); break;
    case 2: peer_action_after(3, 100 + gen(3) * 40000 + gen(300000)); break;
    case 3: waiting_call(A, IO_WAIT_IN, readable_now(A), 3); break;
    case 4: { IoResult s = io_call(A, IO_SEND_TO, S->p_port); if (!s.ok && !A.m.closed) violate("send_to_failed", "p_socket_send_to", "send_to failed (code %d)", s.code); break; }
    case 5: if (gen(3) == 0) { IoResult c = io_call(A, IO_CONNECT, S->p_port); if (c.ok) A.m.connected = true; else if (!A.m.closed) violate("connect_failed", "p_socket_connect", "connect on a datagram socket failed (code %d)", c.code); } break;
    case 6: if (gen(2)) { failed_call(A); break; }
      // fall through
    default: set_ops(A);
    }
    check_getters(A, "datagram operation");
  }
}

void root() {
  S = new St();
  hooks().completion_required = true;
  lib_begin();
  S->fam = gen(2) ? P_SOCKET_FAMILY_INET : P_SOCKET_FAMILY_INET6;
  S->af = S->fam == P_SOCKET_FAMILY_INET ? AF_INET : AF_INET6;
  S->small_bufs = gen(3) == 0;
  if (S->small_bufs) kern::set_net_defaults(gen(2) ? 256 : 1024, gen(2) ? 256 : 1024, false); else kern::set_net_defaults(65536, 65536, false);
  uint32_t sc = gen(5);
  if (sc < 2) scenario_client(); else if (sc < 4) scenario_server(); else scenario_udp();
  // let a pending peer action finish, then close / post-close life
  wait_all_others();
  LS *all[2] = {&S->a, S->have_b ? &S->b : nullptr};
  for (LS *L : all) {
    if (!L || !L->s) continue;
    if (gen(4) != 0) { do_close(*L); post_close_ops(*L); }
    int fd = p_socket_get_fd(L->s);
    uint64_t closes0 = kern::closes_total();
    HX_API_V("p_socket_free", L->id, false, p_socket_free(L->s));
    if (fd >= 0 && kern::closes_total() != closes0 + 1) violate("free_did_not_close", "p_socket_free", "freeing an open socket issued %llu close() calls", (unsigned long long)(kern::closes_total() - closes0));
    if (fd < 0 && kern::closes_total() != closes0) violate("second_close_touched_descriptor", "p_socket_free", "freeing a closed socket issued close() again");
  }
  kern::faults_off(true);
  { int bad0 = kern::bad_closes(); for (int fd : S->raw_fds) simk_close(fd); if (kern::bad_closes() != bad0) infra_error("scripted peer closed a descriptor twice"); }
  kern::faults_off(false);
  if (kern::bad_closes()) violate("bad_close", "end", "%d close() call(s) hit descriptors that were not open", kern::bad_closes());
  if (kern::fd_count(0)) violate("descriptor_left_open", "end", "descriptors still open at the end: %s", kern::fd_desc(0).c_str());
  lib_end();
  delete S; S = nullptr;
}

void configure(Config &c, Rng &) {
  swarm_schedule(c, 200);
  c.step_cap = 500000;
  static const double pe[] = {0, 0, 0.05, 0.2};
  c.p[ST_EINTR] = pe[gen(4)];
  c.p[ST_TIMER] = pe[gen(4)];
}

}  // namespace

SIM_HARNESS(sock_state, "C10", root, configure)
