// C19 — blocking calls are transparent to signal interruptions (EINTR at the k-th invocation of each blocking
// system call, singly and in pairs, and signal storms at random simulated instants).
#include "common.h"
#include "../sim/kernel.h"
#include "../sim/knet.h"
#include "../sim/rawsys.h"
#include <errno.h>
#include <string.h>
#include <stdlib.h>

using namespace hx;

namespace {

struct St { int fired0 = 0; PSocketFamily fam = P_SOCKET_FAMILY_INET; };
St *S;

int ecode(PError *e) { return e ? p_error_get_code(e) : 0; }
int enat(PError *e) { return e ? p_error_get_native_code(e) : 0; }

void no_eintr_error(const char *api, PError *e) {
  if (!e) return;
  if (enat(e) == EINTR && ecode(e) != P_ERROR_IO_TIMED_OUT) violate("interrupted_error_surfaced", api, "%s reported an interrupted-call error to the caller (code %d)", api, ecode(e));
}

// ---- scenarios ------------------------------------------------------------------------------------
void sc_sleep() {
  static const uint32_t ms[] = {1, 20, 300, 5000, 0, 999, 1000, 61000};
  uint32_t d = ms[gen(8)];
  static const int stale[] = {0, EINTR, EAGAIN, ENOENT};
  int e0 = stale[gen(4)];
  describe("scenario=sleep ms=%u errno_before=%d", d, e0);
  uint64_t t0 = now_ns();
  errno = e0;                                   // stale errno is legitimate caller state
  pint r = HX_API("p_uthread_sleep", 0, false, p_uthread_sleep(d));
  uint64_t dt = now_ns() - t0;
  if (r != 0) violate("sleep_failed", "p_uthread_sleep", "p_uthread_sleep(%u) returned %d after %llu us (errno before the call: %d, signals delivered during the call: %d)", d, r,
                      (unsigned long long)(dt / 1000), e0, kern::eintr_fired() - S->fired0);
  if (dt < (uint64_t)d * 1000000ULL) violate("sleep_returned_early", "p_uthread_sleep", "p_uthread_sleep(%u) returned 0 after only %llu us", d, (unsigned long long)(dt / 1000));
  if (kern::eintr_fired() - S->fired0 >= 2) probe("sleep.interrupted_twice");
  if (d >= 5000) probe("sleep.long_sleep_cost_nothing");
}

void sc_semaphore() {
  describe("scenario=semaphore");
  PError *e = nullptr;
  PSemaphore *s = HX_API("p_semaphore_new", 0, false, p_semaphore_new("vp-eintr-sem", 0, P_SEM_ACCESS_CREATE, &e));
  if (!s) violate("new_failed", "p_semaphore_new", "creating a semaphore failed under signal delivery (native %d)", enat(e));
  int obj = kern::last_sem_obj();
  uint64_t delay = 1000000ULL * (1 + gen(50));
  spawn(0, [s, delay]() {
    sleep_until(now_ns() + delay);
    if (!HX_API("p_semaphore_release", 0, false, p_semaphore_release(s, nullptr))) violate("release_failed", "p_semaphore_release", "release failed");
  });
  uint64_t t0 = now_ns();
  if (!HX_API("p_semaphore_acquire", 0, false, p_semaphore_acquire(s, &e))) violate("acquire_failed", "p_semaphore_acquire", "acquire failed while signals were delivered (native %d)", enat(e));
  if (now_ns() - t0 < delay) violate("acquire_without_unit", "p_semaphore_acquire", "acquire returned before the unit was released");
  wait_all_others();
  if (kern::sem_value(obj) != 0) violate("counter_mismatch", "p_semaphore_acquire", "counter is %d after one release and one acquire", kern::sem_value(obj));
  // open by a second handle under interruption, then clean up
  PSemaphore *s2 = HX_API("p_semaphore_new", 0, false, p_semaphore_new("vp-eintr-sem", 3, P_SEM_ACCESS_OPEN, &e));
  if (!s2) violate("new_failed", "p_semaphore_new", "opening an existing semaphore failed under signal delivery (native %d)", enat(e));
  if (kern::last_sem_obj() != obj || kern::last_sem_created()) violate("open_created_another_counter", "p_semaphore_new", "opening an existing semaphore under signal delivery created a new one");
  if (kern::sem_value(obj) != 0) violate("counter_mismatch", "p_semaphore_new", "opening an existing semaphore with initial value 3 changed its counter to %d", kern::sem_value(obj));
  HX_API_V("p_semaphore_free", 0, false, p_semaphore_free(s2));
  HX_API_V("p_semaphore_free", 0, false, p_semaphore_free(s));
  if (!kern::names_bound().empty()) violate("names_left_behind", "p_semaphore_free", "semaphore name left behind");
}

void sc_shm() {
  describe("scenario=shm_lock");
  PError *e = nullptr;
  PShm *m = HX_API("p_shm_new", 0, false, p_shm_new("vp-eintr-shm", 100, P_SHM_ACCESS_READWRITE, &e));
  if (!m) violate("new_failed", "p_shm_new", "creating a segment failed under signal delivery (native %d)", enat(e));
  if (!HX_API("p_shm_lock", 0, false, p_shm_lock(m, &e))) violate("lock_failed", "p_shm_lock", "lock failed");
  int *inside = new int(0);
  uint64_t hold = 1000000ULL * (1 + gen(30));
  Task *w = spawn(0, [m, inside]() {
    PError *e2 = nullptr;
    if (!HX_API("p_shm_lock", 0, false, p_shm_lock(m, &e2))) violate("lock_failed", "p_shm_lock", "lock failed while signals were delivered (native %d)", enat(e2));
    if (*inside) violate("two_lock_holders", "p_shm_lock", "lock returned while another task holds it");
    if (!HX_API("p_shm_unlock", 0, false, p_shm_unlock(m, nullptr))) violate("unlock_failed", "p_shm_unlock", "unlock failed");
  });
  (void)w;
  *inside = 1;
  sleep_until(now_ns() + hold);
  *inside = 0;
  if (!HX_API("p_shm_unlock", 0, false, p_shm_unlock(m, nullptr))) violate("unlock_failed", "p_shm_unlock", "unlock failed");
  wait_all_others();
  // a second process opens the EXISTING segment while signals are delivered: it joins it - same bytes, same size, same lock -
  // and when it leaves, the segment stays with its creator
  unsigned char *base = (unsigned char *)p_shm_get_address(m);
  size_t sz0 = p_shm_get_size(m);
  for (size_t i = 0; i < sz0; i++) base[i] = (unsigned char)(i * 7 + 3);
  int seg = kern::last_shm_obj();
  spawn(2, [sz0, seg]() {
    PError *e2 = nullptr;
    PShm *m2 = HX_API("p_shm_new", 1, false, p_shm_new("vp-eintr-shm", 100, P_SHM_ACCESS_READWRITE, &e2));
    if (!m2) violate("new_failed", "p_shm_new", "opening an existing segment failed under signal delivery (native %d)", enat(e2));
    if (kern::last_shm_obj() != seg || kern::last_shm_created()) violate("open_created_another_segment", "p_shm_new", "opening an existing segment under signal delivery created a new one");
    if (p_shm_get_size(m2) != sz0) violate("size_changed", "p_shm_get_size", "second handle reports %zu bytes, the creator %zu", (size_t)p_shm_get_size(m2), sz0);
    unsigned char *b2 = (unsigned char *)p_shm_get_address(m2);
    for (size_t i = 0; i < sz0; i++) if (b2[i] != (unsigned char)(i * 7 + 3)) violate("content_changed", "p_shm_new", "byte %zu of the segment changed when a second handle was opened under signal delivery", i);
    if (!HX_API("p_shm_lock", 1, false, p_shm_lock(m2, &e2))) violate("lock_failed", "p_shm_lock", "lock through the second handle failed (native %d)", enat(e2));
    if (!HX_API("p_shm_unlock", 1, false, p_shm_unlock(m2, nullptr))) violate("unlock_failed", "p_shm_unlock", "unlock failed");
    HX_API_V("p_shm_free", 1, false, p_shm_free(m2));
    probe("eintr.second_handle_of_existing_segment");
  });
  // meanwhile the creator takes the lock for a moment: the two handles must exclude each other
  if (!HX_API("p_shm_lock", 0, false, p_shm_lock(m, &e))) violate("lock_failed", "p_shm_lock", "lock failed");
  int locks0 = kern::sem_value(kern::last_sem_obj());
  (void)locks0;
  sleep_until(now_ns() + 2000000ULL);
  if (!HX_API("p_shm_unlock", 0, false, p_shm_unlock(m, nullptr))) violate("unlock_failed", "p_shm_unlock", "unlock failed");
  wait_all_others();
  if (kern::names_bound().size() != 2) violate("segment_removed_by_non_owner", "p_shm_free", "after a non-owner freed its handle %zu of the 2 names (segment, lock) exist", kern::names_bound().size());
  for (size_t i = 0; i < sz0; i++) if (base[i] != (unsigned char)(i * 7 + 3)) violate("content_changed", "p_shm_free", "byte %zu of the segment changed", i);
  HX_API_V("p_shm_free", 0, false, p_shm_free(m));
  if (!kern::names_bound().empty()) violate("names_left_behind", "p_shm_free", "names left behind");
  if (kern::mapping_count(0) || kern::mapping_count(2)) violate("mapping_left", "p_shm_free", "mapping left: %s %s", kern::mapping_desc(0).c_str(), kern::mapping_desc(2).c_str());
  delete inside;
}

PSocketAddress *lo(int port) { return p_socket_address_new_loopback(S->fam, (puint16)port); }

// blocking TCP exchange: accept with a late client, connect to a slow listener, receive from a late sender, send into a full buffer
void sc_tcp() {
  describe("scenario=tcp");
  int small = gen(2);
  kern::set_net_defaults(small ? 64 : 65536, small ? 64 : 65536, false);
  PError *e = nullptr;
  PSocket *srv = HX_API("p_socket_new", 0, false, p_socket_new(S->fam, P_SOCKET_TYPE_STREAM, P_SOCKET_PROTOCOL_TCP, &e));
  if (!srv) violate("socket_new_failed", "p_socket_new", "socket failed");
  PSocketAddress *a = lo(0);
  if (!p_socket_bind(srv, a, TRUE, &e)) violate("bind_failed", "p_socket_bind", "bind failed");
  p_socket_address_free(a);
  if (!p_socket_listen(srv, &e)) violate("listen_failed", "p_socket_listen", "listen failed");
  PSocketAddress *la = p_socket_get_local_address(srv, &e);
  int port = p_socket_address_get_port(la); p_socket_address_free(la);
  size_t total = 1 + gen(3000);
  uint64_t late = 1000000ULL * (1 + gen(40));
  int tmo = gen(3) == 0 ? 60000 : 0;            // a long timeout must not expire: waits may only get longer under signals
  spawn(0, [port, total, late, tmo]() {
    PError *e2 = nullptr;
    sleep_until(now_ns() + late);               // late client
    PSocket *c = HX_API("p_socket_new", 1, false, p_socket_new(S->fam, P_SOCKET_TYPE_STREAM, P_SOCKET_PROTOCOL_TCP, &e2));
    p_socket_set_timeout(c, tmo);
    PSocketAddress *to = lo(port);
    if (!HX_API("p_socket_connect", 1, false, p_socket_connect(c, to, &e2))) { no_eintr_error("p_socket_connect", e2); violate("connect_failed", "p_socket_connect", "blocking connect failed while signals were delivered (code %d native %d)", ecode(e2), enat(e2)); }
    p_socket_address_free(to);
    sleep_until(now_ns() + late);               // late sender
    size_t pos = 0; char buf[512];
    while (pos < total) {
      size_t n = std::min(sizeof buf, total - pos);
      for (size_t i = 0; i < n; i++) buf[i] = (char)((pos + i) * 7 + 3);
      pssize r = HX_API("p_socket_send", 1, false, p_socket_send(c, buf, n, &e2));
      if (r <= 0) { no_eintr_error("p_socket_send", e2); violate("send_failed", "p_socket_send", "blocking send failed while signals were delivered (code %d native %d)", ecode(e2), enat(e2)); }
      pos += (size_t)r;
    }
    HX_API_V("p_socket_free", 1, false, p_socket_free(c));
  });
  p_socket_set_timeout(srv, tmo);
  PSocket *conn = HX_API("p_socket_accept", 0, false, p_socket_accept(srv, &e));
  if (!conn) { no_eintr_error("p_socket_accept", e); violate("accept_failed", "p_socket_accept", "blocking accept failed while signals were delivered (code %d native %d)", ecode(e), enat(e)); }
  p_socket_set_timeout(conn, tmo);
  if (gen(2)) sleep_until(now_ns() + 3 * late);  // slow reader: the sender meets a full buffer
  size_t got = 0; char buf[300];
  for (;;) {
    pssize r = HX_API("p_socket_receive", 0, false, p_socket_receive(conn, buf, 1 + gen(sizeof buf - 1), &e));
    if (r < 0) { no_eintr_error("p_socket_receive", e); violate("receive_failed", "p_socket_receive", "blocking receive failed while signals were delivered (code %d native %d)", ecode(e), enat(e)); }
    if (r == 0) break;
    for (pssize i = 0; i < r; i++) if (buf[i] != (char)((got + (size_t)i) * 7 + 3)) violate("stream_corrupted", "p_socket_receive", "byte %zu of the stream is wrong", got + (size_t)i);
    got += (size_t)r;
  }
  if (got != total) violate("stream_truncated", "p_socket_receive", "%zu of %zu bytes arrived", got, total);
  wait_all_others();
  HX_API_V("p_socket_free", 0, false, p_socket_free(conn));
  HX_API_V("p_socket_free", 0, false, p_socket_free(srv));
}

void sc_udp_wait() {
  describe("scenario=udp_wait");
  PError *e = nullptr;
  PSocket *u = HX_API("p_socket_new", 0, false, p_socket_new(S->fam, P_SOCKET_TYPE_DATAGRAM, P_SOCKET_PROTOCOL_UDP, &e));
  PSocketAddress *a = lo(0);
  if (!u || !p_socket_bind(u, a, FALSE, &e)) violate("bind_failed", "p_socket_bind", "bind failed");
  p_socket_address_free(a);
  PSocketAddress *la = p_socket_get_local_address(u, &e);
  int port = p_socket_address_get_port(la); p_socket_address_free(la);
  uint64_t late = 1000000ULL * (1 + gen(40));
  int T = gen(2) ? 0 : 50;                        // with a timeout shorter than the delay the call must time out — but never early
  p_socket_set_timeout(u, T);
  spawn(0, [port, late]() {
    PError *e2 = nullptr;
    sleep_until(now_ns() + late);
    PSocket *s = HX_API("p_socket_new", 1, false, p_socket_new(S->fam, P_SOCKET_TYPE_DATAGRAM, P_SOCKET_PROTOCOL_UDP, &e2));
    PSocketAddress *to = lo(port);
    char msg[40]; memset(msg, 'm', sizeof msg);
    if (HX_API("p_socket_send_to", 1, false, p_socket_send_to(s, to, msg, sizeof msg, &e2)) != (pssize)sizeof msg) { no_eintr_error("p_socket_send_to", e2); violate("send_to_failed", "p_socket_send_to", "send_to failed (code %d)", ecode(e2)); }
    p_socket_address_free(to);
    HX_API_V("p_socket_free", 1, false, p_socket_free(s));
  });
  char buf[64];
  uint64_t t0 = now_ns();
  bool io_wait = gen(2);
  pssize r;
  if (io_wait) r = HX_API("p_socket_io_condition_wait", 0, false, p_socket_io_condition_wait(u, P_SOCKET_IO_CONDITION_POLLIN, &e)) ? 1 : -1;
  else r = HX_API("p_socket_receive_from", 0, false, p_socket_receive_from(u, nullptr, buf, sizeof buf, &e));
  uint64_t dt = now_ns() - t0;
  if (r < 0) {
    no_eintr_error(io_wait ? "p_socket_io_condition_wait" : "p_socket_receive_from", e);
    if (ecode(e) != P_ERROR_IO_TIMED_OUT || T == 0) violate("receive_failed", "p_socket_receive_from", "blocking wait failed while signals were delivered (code %d native %d)", ecode(e), enat(e));
    if (dt < (uint64_t)T * 1000000ULL) violate("timed_out_early", "p_socket_receive_from", "wait with timeout %d ms gave up after %llu us", T, (unsigned long long)(dt / 1000));
    if (late + 6000000ULL < (uint64_t)T * 1000000ULL) violate("blocking_call_gave_up", "p_socket_receive_from", "timed out although the datagram arrived in time");
  } else {
    if (dt < late) violate("returned_before_event", "p_socket_receive_from", "wait returned before the datagram was sent");
    if (!io_wait && r != 40) violate("datagram_damaged", "p_socket_receive_from", "received %zd bytes of a 40-byte datagram", (ssize_t)r);
  }
  wait_all_others();
  HX_API_V("p_socket_free", 0, false, p_socket_free(u));
}

void root() {
  S = new St();
  hooks().completion_required = true;
  lib_begin();
  S->fam = gen(2) ? P_SOCKET_FAMILY_INET : P_SOCKET_FAMILY_INET6;
  uint32_t sc = gen(8);
  // injection plan: systematic (k-th invocation of one call, optionally a pair) or a storm (probability per opportunity, budget raised)
  static const int calls[] = {kern::SC_NANOSLEEP, kern::SC_SEM_WAIT, kern::SC_SEM_OPEN, kern::SC_SHM_OPEN, kern::SC_POLL, kern::SC_CONNECT, kern::SC_ACCEPT, kern::SC_RECV, kern::SC_RECVFROM, kern::SC_SEND, kern::SC_SENDTO};
  uint32_t mode = gen(4);
  if (mode <= 1) {
    int relevant = sc <= 1 ? 0 : sc == 2 ? 1 + (int)gen(2) : sc == 3 ? 1 + (int)gen(3) : sc <= 5 ? 4 + (int)gen(6) : 4 + (int)gen(7);
    int k1 = 1 + (int)gen(cfg().tier ? 12 : 6);
    kern::plan_eintr(calls[relevant], k1);
    describe("plan=%s#%d ", kern::call_names[calls[relevant]], k1);
    if (mode == 1) { int c2 = (int)gen(11), k2 = 1 + (int)gen(6); kern::plan_eintr(calls[c2], k2); describe("+%s#%d ", kern::call_names[calls[c2]], k2); }
  } else describe("plan=storm p=%.2f ", cfg().p[ST_EINTR]);
  S->fired0 = kern::eintr_fired();
  switch (sc) {
  case 0: case 1: sc_sleep(); break;
  case 2: sc_semaphore(); break;
  case 3: sc_shm(); break;
  case 4: case 5: sc_tcp(); break;
  default: sc_udp_wait(); break;
  }
  if (kern::eintr_fired() - S->fired0 > 0) probe("eintr.some_fired");
  if (kern::fd_count(0)) violate("descriptor_left_open", "end", "descriptors left open: %s", kern::fd_desc(0).c_str());
  lib_end();
  delete S; S = nullptr;
}

void configure(Config &c, Rng &) {
  swarm_schedule(c, 300);
  c.step_cap = 1000000;
  static const double pe[] = {0.05, 0.2, 0.5, 0.9};
  c.p[ST_EINTR] = pe[gen(4)];
  c.p[ST_TIMER] = gen(2) ? 0.1 : 0;
}

}  // namespace

SIM_HARNESS(eintr, "C19", root, configure)
