// C05 — PUThread: join + exit code + visibility, ref-counted handle freed exactly once after the last
// reference, per-thread TLS values with destructor rules.
#include "common.h"
#include <string.h>

using namespace hx;

namespace {

constexpr int MAXH = 8, MAXK = 3, MAXTOK = 256;

enum BodyOp { B_TLS_SET, B_TLS_REPLACE, B_TLS_GET, B_WRITE, B_CURRENT, B_REFSELF, B_YIELD, B_SETPRIO, B_EXIT, B_TLS_SET_NULL, B_TLS_REPLACE_NULL, B_TLS_REPLACE_SAME };
struct BOp { uint8_t op, key; int arg; };

struct Handle {
  PUThread *h = nullptr;        // value returned to the creator (may be unknown to the thread for a while)
  bool joinable = false, has_name = false;
  int tid = -1;                 // simulator task id of the thread
  int creator_refs = 0;         // references the root still holds (creator's + explicit)
  bool joined = false;
  bool exiting = false;         // body announced it is about to return / exit
  bool has_exit_code = false; int exit_code = 0;
  long result = 0; long expected_result = 0;
  std::vector<BOp> body;
  PUThread *self_seen = nullptr;
  int ret_kind = 0;             // what the thread function returns when it simply returns: never an exit code
};

struct Key { PUThreadKey *k = nullptr; bool has_dtor = false; };

struct St {
  Handle hs[MAXH]; int nh = 0;
  Key keys[MAXK]; int nk = 0;
  // TLS model: value token per (task, key); 0 = NULL
  int tls[sim::MAXT][MAXK];
  int dtor_calls[MAXTOK], dtor_expected[MAXTOK]; int ntok = 1;
  int tok_key[MAXTOK];
  bool in_replace[sim::MAXT]; int replace_old[sim::MAXT];
  std::vector<PUThread *> foreign_handles;
};
St *S;

void dtor_fn(ppointer v) {
  int tok = (int)(intptr_t)v;
  if (tok <= 0 || tok >= MAXTOK) violate("tls_dtor_bad_value", "destroy notifier", "destroy notifier called with a value that was never stored (%p)", v);
  S->dtor_calls[tok]++;
  ev("harness_dtor", tok);
  if (S->dtor_calls[tok] > S->dtor_expected[tok]) violate("tls_dtor_twice", "destroy notifier", "destroy notifier called %d time(s) for one stored value, %d expected so far", S->dtor_calls[tok], S->dtor_expected[tok]);
  Task *t = cur();
  bool ok = false;
  if (S->in_replace[t->id] && S->replace_old[t->id] == tok) ok = true;   // inside p_uthread_replace_local for this value
  // at thread exit: the value must be the one the model holds for this task and key
  int k = S->tok_key[tok];
  if (!ok && S->tls[t->id][k] == tok && t->api == nullptr) { ok = true; S->tls[t->id][k] = 0; }
  if (!ok) violate("tls_dtor_unexpected", "destroy notifier", "destroy notifier called for value %d outside replace_local / thread exit of its owner (api=%s)", tok, t->api ? t->api : "-");
}

int new_token(int key) {
  if (S->ntok >= MAXTOK) return 0;
  int t = S->ntok++;
  S->tok_key[t] = key;
  return t;
}

void check_handle_liveness(const char *where) {
  for (int i = 0; i < S->nh; i++) {
    Handle &H = S->hs[i];
    if (!H.h) continue;
    Task *tt = task(H.tid);
    bool thread_done = tt && tt->state == T_FINISHED;
    int lower = H.creator_refs + (H.exiting || thread_done ? 0 : 1);
    int upper = H.creator_refs + (thread_done ? 0 : 1);
    bool live = alloc::is_live(H.h);
    if (lower > 0 && !live) violate("handle_freed_early", where, "thread handle %d released while %d reference(s) still exist", i, lower);
    if (upper == 0 && live) violate("handle_not_freed", where, "thread handle %d still allocated after its last reference was dropped", i);
  }
}

void tls_op(const BOp &o, int me) {
  Key &K = S->keys[o.key];
  switch (o.op) {
  case B_TLS_SET: case B_TLS_SET_NULL: {
    int tok = o.op == B_TLS_SET ? new_token(o.key) : 0;
    // set_local never calls the notifier: the overwritten value is simply dropped from the model
    int old = S->tls[me][o.key];
    HX_API_V("p_uthread_set_local", 10 + o.key, false, p_uthread_set_local(K.k, (ppointer)(intptr_t)tok));
    S->tls[me][o.key] = tok;
    (void)old;
    break;
  }
  case B_TLS_REPLACE: case B_TLS_REPLACE_NULL: case B_TLS_REPLACE_SAME: {
    int old = S->tls[me][o.key];
    // "same": the value stored is replaced by itself - it is a replaced value like any other (notifier runs), and it stays stored
    int tok = o.op == B_TLS_REPLACE ? new_token(o.key) : o.op == B_TLS_REPLACE_SAME ? old : 0;
    if (old && K.has_dtor) S->dtor_expected[old]++;
    S->in_replace[me] = true; S->replace_old[me] = old;
    int before = old ? S->dtor_calls[old] : 0;
    HX_API_V("p_uthread_replace_local", 10 + o.key, false, p_uthread_replace_local(K.k, (ppointer)(intptr_t)tok));
    S->in_replace[me] = false;
    if (old && K.has_dtor && S->dtor_calls[old] != before + 1) violate("tls_replace_no_dtor", "p_uthread_replace_local", "replace_local did not call the destroy notifier for the replaced value");
    if (old && K.has_dtor) probe("tls.replace_destroyed_old");
    S->tls[me][o.key] = tok;
    break;
  }
  case B_TLS_GET: {
    ppointer v = HX_API("p_uthread_get_local", 10 + o.key, false, p_uthread_get_local(K.k));
    if ((int)(intptr_t)v != S->tls[me][o.key])
      violate("tls_wrong_value", "p_uthread_get_local", "get_local returned %p, this thread stored %d under key %d", v, S->tls[me][o.key], o.key);
    break;
  }
  }
}

void at_exit_expectations(int me) {
  // values left at thread exit with a notifier must be destroyed exactly once
  for (int k = 0; k < S->nk; k++) { int tok = S->tls[me][k]; if (tok && S->keys[k].has_dtor) S->dtor_expected[tok]++; }
}

ppointer thread_fn(ppointer arg) {
  Handle &H = *(Handle *)arg;
  int me = cur()->id;
  if (H.tid != me && H.tid != -1) violate("wrong_thread", "thread body", "body runs on an unexpected task");
  for (auto &o : H.body) {
    switch (o.op) {
    case B_TLS_SET: case B_TLS_REPLACE: case B_TLS_GET: case B_TLS_SET_NULL: case B_TLS_REPLACE_NULL: case B_TLS_REPLACE_SAME: tls_op(o, me); break;
    case B_WRITE: SIM_WRITE(H.result); H.result += o.arg; H.expected_result += o.arg; break;
    case B_CURRENT: {
      PUThread *c = HX_API("p_uthread_current", 0, false, p_uthread_current());
      if (!c) violate("current_null", "p_uthread_current", "p_uthread_current returned NULL inside a library-created thread");
      if (H.self_seen && c != H.self_seen) violate("current_changed", "p_uthread_current", "p_uthread_current returned different handles in one thread");
      H.self_seen = c;
      if (H.h && c != H.h) violate("current_not_own_handle", "p_uthread_current", "p_uthread_current differs from the handle returned to the creator");
      break;
    }
    case B_REFSELF: {
      PUThread *c = HX_API("p_uthread_current", 0, false, p_uthread_current());
      HX_API_V("p_uthread_ref", 0, false, p_uthread_ref(c));
      yield_point();
      HX_API_V("p_uthread_unref", 0, false, p_uthread_unref(c));
      break;
    }
    case B_SETPRIO: {
      PUThread *c = HX_API("p_uthread_current", 0, false, p_uthread_current());
      HX_API("p_uthread_set_priority", 0, false, p_uthread_set_priority(c, (PUThreadPriority)(2 + o.arg % 5)));
      break;
    }
    case B_YIELD: HX_API_V("p_uthread_yield", 0, false, p_uthread_yield()); break;
    case B_EXIT:
      at_exit_expectations(me);
      H.exiting = true;
      ev("body_exit", o.arg);
      p_uthread_exit(o.arg);      // not bracketed: never returns, destructors run outside any API bracket
      violate("exit_returned", "p_uthread_exit", "p_uthread_exit returned in a library-created thread");
    }
  }
  at_exit_expectations(me);
  H.exiting = true;
  // the routine's return value is not an exit code: join yields 0 whatever is returned here
  switch (H.ret_kind) {
  case 1: return arg;
  case 2: return (ppointer)(intptr_t)42;
  case 3: return (ppointer)(intptr_t)-1;
  default: return nullptr;
  }
}

void foreign_body(int n_ops) {
  int me = cur()->id;
  PUThread *mine = nullptr;
  for (int i = 0; i < n_ops; i++) {
    uint32_t r = gen(6);
    if (r == 0 || !mine) {
      PUThread *c = HX_API("p_uthread_current", 0, false, p_uthread_current());
      if (!c) violate("current_null", "p_uthread_current", "p_uthread_current returned NULL in a foreign thread");
      if (mine && c != mine) violate("current_changed", "p_uthread_current", "p_uthread_current returned different handles in one foreign thread");
      if (!mine) { S->foreign_handles.push_back(c); probe("thread.foreign_current"); }
      mine = c;
    } else if (r == 1) {
      HX_API_V("p_uthread_ref", 0, false, p_uthread_ref(mine));
      yield_point();
      HX_API_V("p_uthread_unref", 0, false, p_uthread_unref(mine));
      if (!alloc::is_live(mine)) violate("handle_freed_early", "p_uthread_unref", "foreign thread handle released while its thread still runs");
    } else if (r == 2 && S->nk) {
      BOp o{(uint8_t)(gen(2) ? B_TLS_SET : B_TLS_REPLACE), (uint8_t)gen((uint32_t)S->nk), 0};
      tls_op(o, me);
    } else if (r == 3 && S->nk) {
      BOp o{B_TLS_GET, (uint8_t)gen((uint32_t)S->nk), 0};
      tls_op(o, me);
    } else if (r == 4) {
      HX_API_V("p_uthread_exit", 0, false, p_uthread_exit(7));   // documented no-op (warning) from a thread the library did not create
    } else yield_point();
  }
  at_exit_expectations(me);
}

void root() {
  S = new St();
  memset(S->tls, 0, sizeof S->tls); memset(S->dtor_calls, 0, sizeof S->dtor_calls); memset(S->dtor_expected, 0, sizeof S->dtor_expected);
  memset(S->in_replace, 0, sizeof S->in_replace);
  hooks().completion_required = true;
  lib_begin();
  int tier = cfg().tier;
  S->nk = (int)gen_range(0, MAXK);
  for (int k = 0; k < S->nk; k++) {
    S->keys[k].has_dtor = gen(4) != 0;
    S->keys[k].k = HX_API("p_uthread_local_new", 10 + k, false, p_uthread_local_new(S->keys[k].has_dtor ? dtor_fn : nullptr));
    if (!S->keys[k].k) violate("new_returned_null", "p_uthread_local_new", "p_uthread_local_new returned NULL");
  }
  int nthreads = (int)gen_range(1, tier ? 6 : 4);
  int nforeign = (int)gen(3);
  describe("keys=%d threads=%d foreign=%d ", S->nk, nthreads, nforeign);
  // plan thread bodies
  for (int i = 0; i < nthreads; i++) {
    Handle &H = S->hs[i];
    H.joinable = gen(3) != 0;
    H.has_name = gen(2);
    H.ret_kind = gen(2) ? (int)gen(4) : 0;
    int n = (int)gen_range(0, tier ? 10 : 6);
    describe("%s[", H.joinable ? "J" : "D");
    for (int j = 0; j < n; j++) {
      BOp o; uint32_t r = gen(12);
      o.key = S->nk ? (uint8_t)gen((uint32_t)S->nk) : 0; o.arg = 1 + (int)gen(100);
      if (r < 2 && S->nk) o.op = B_TLS_SET; else if (r < 4 && S->nk) o.op = B_TLS_REPLACE; else if (r < 5 && S->nk) o.op = B_TLS_GET;
      else if (r < 6 && S->nk) { uint32_t q = gen(3); o.op = q == 0 ? B_TLS_SET_NULL : q == 1 ? B_TLS_REPLACE_NULL : B_TLS_REPLACE_SAME; }
      else if (r < 7) o.op = B_WRITE; else if (r < 8) o.op = B_CURRENT; else if (r < 9) o.op = B_REFSELF; else if (r < 10) o.op = B_YIELD; else if (r < 11) o.op = B_SETPRIO;
      else { o.op = B_EXIT; static const int codes[] = {0, 1, -1, 42, INT32_MAX, INT32_MIN}; o.arg = codes[gen(6)]; }
      H.body.push_back(o);
      static const char *nm[] = {"set", "repl", "get", "wr", "cur", "refself", "yield", "prio", "exit", "set0", "repl0", "repl-same"};
      describe("%s%s", j ? "," : "", nm[o.op]);
      if (o.op == B_EXIT) { H.has_exit_code = true; H.exit_code = o.arg; break; }
    }
    describe("]");
  }
  for (int f = 0; f < nforeign; f++) { int n = (int)gen_range(1, 6); Task *t = spawn(0, [n]() { foreign_body(n); }); t->is_thread = true; }
  // root script: create threads interleaved with ref/unref/join
  int created = 0;
  int budget = nthreads * 4 + 4;
  while (budget-- > 0) {
    uint32_t r = gen(8);
    if (created < nthreads && (r < 3 || budget < nthreads * 2)) {
      Handle &H = S->hs[created];
      S->nh = created + 1;
      const char *name = H.has_name ? (gen(3) == 0 ? "a-thread-name-longer-than-sixteen" : "thr") : nullptr;
      pboolean jarg = H.joinable ? (gen(4) == 0 ? (pboolean)2 : TRUE) : FALSE;      // any non-zero value means "joinable"
      PUThread *h = HX_API("p_uthread_create", created, false, p_uthread_create(thread_fn, &H, jarg, name));
      if (!h) violate("create_returned_null", "p_uthread_create", "p_uthread_create failed");
      H.tid = shim::thread_task(shim::last_created(shim::K_THREAD));
      H.h = h; H.creator_refs = 1;
      Task *tt = task(H.tid);
      if (tt && tt->state == T_FINISHED) probe("thread.finished_before_create_returned");
      if (tt && tt->started && tt->state != T_FINISHED) probe("thread.started_before_create_returned");
      created++;
    } else if (r == 3 && created) {
      Handle &H = S->hs[gen((uint32_t)created)];
      if (H.creator_refs > 0) { HX_API_V("p_uthread_ref", 0, false, p_uthread_ref(H.h)); H.creator_refs++; }
    } else if (r == 4 && created) {
      Handle &H = S->hs[gen((uint32_t)created)];
      // keep one reference on joinable threads that were not joined yet (join needs a valid handle)
      if (H.creator_refs > ((H.joinable && !H.joined) ? 1 : 0)) {
        Task *tt = task(H.tid);
        if (tt && !tt->started) probe("thread.unref_before_child_started");
        H.creator_refs--;
        HX_API_V("p_uthread_unref", 0, false, p_uthread_unref(H.h));
      }
    } else if (r == 5 && created) {
      Handle &H = S->hs[gen((uint32_t)created)];
      if (H.creator_refs > 0 && !H.joined) {
        pint code = HX_API("p_uthread_join", 0, false, p_uthread_join(H.h));
        if (H.joinable) {
          H.joined = true;
          Task *tt = task(H.tid);
          if (!tt || tt->state != T_FINISHED) violate("join_returned_early", "p_uthread_join", "join returned while the thread is still running");
          int want = H.has_exit_code ? H.exit_code : 0;
          if (code != want) violate("join_wrong_code", "p_uthread_join", "join returned %d, thread exited with %d", code, want);
          SIM_READ(H.result);
          if (H.result != H.expected_result) violate("join_stale_result", "p_uthread_join", "result word not visible after join");
          probe("thread.joined");
        } else if (code != -1) violate("join_detached_code", "p_uthread_join", "join on a detached thread returned %d, documented -1", code);
      }
    } else yield_point();
    check_handle_liveness("root script");
  }
  // wind down: join what is joinable and still referenced, wait for everybody, drop remaining references
  for (int i = 0; i < S->nh; i++) {
    Handle &H = S->hs[i];
    if (H.joinable && !H.joined && H.creator_refs > 0) {
      pint code = HX_API("p_uthread_join", 0, false, p_uthread_join(H.h));
      H.joined = true;
      Task *tt = task(H.tid);
      if (!tt || tt->state != T_FINISHED) violate("join_returned_early", "p_uthread_join", "join returned while the thread is still running");
      int want = H.has_exit_code ? H.exit_code : 0;
      if (code != want) violate("join_wrong_code", "p_uthread_join", "join returned %d, thread exited with %d", code, want);
      SIM_READ(H.result);
      if (H.result != H.expected_result) violate("join_stale_result", "p_uthread_join", "result word not visible after join");
    }
  }
  wait_all_others();
  check_handle_liveness("after all threads finished");
  for (int i = 0; i < S->nh; i++) {
    Handle &H = S->hs[i];
    while (H.creator_refs > 0) { H.creator_refs--; HX_API_V("p_uthread_unref", 0, false, p_uthread_unref(H.h)); check_handle_liveness("final unref"); }
  }
  check_handle_liveness("end");
  for (PUThread *fh : S->foreign_handles) if (alloc::is_live(fh)) violate("handle_not_freed", "foreign thread", "handle made by p_uthread_current for a foreign thread not released at its exit");
  for (int tok = 1; tok < S->ntok; tok++)
    if (S->dtor_calls[tok] != S->dtor_expected[tok])
      violate(S->dtor_calls[tok] < S->dtor_expected[tok] ? "tls_dtor_missing" : "tls_dtor_unexpected", "destroy notifier", "value %d: notifier ran %d time(s), expected %d", tok, S->dtor_calls[tok], S->dtor_expected[tok]);
  for (int k = 0; k < S->nk; k++) HX_API_V("p_uthread_local_free", 10 + k, false, p_uthread_local_free(S->keys[k].k));
  // a key released while a thread still holds a value under it: the value is still a value "left at thread exit" of that thread
  if (gen(4) == 0) {
    // the two flags are library atomics: the hand-over of the key between the threads is properly synchronised, as a caller would do it
    static int late_calls; static volatile pint stored, key_gone;
    late_calls = 0; stored = 0; key_gone = 0;
    PUThreadKey *lk = HX_API("p_uthread_local_new", 20, false, p_uthread_local_new([](ppointer v) { if ((intptr_t)v == 4711) late_calls++; else late_calls += 100; }));
    if (!lk) violate("new_returned_null", "p_uthread_local_new", "p_uthread_local_new returned NULL");
    struct Arg { PUThreadKey *k; } arg{lk};
    PUThread *th = HX_API("p_uthread_create", 20, false, p_uthread_create([](ppointer a) -> ppointer {
      HX_API_V("p_uthread_set_local", 20, false, p_uthread_set_local(((Arg *)a)->k, (ppointer)(intptr_t)4711));
      p_atomic_int_set(&stored, 1);
      for (int i = 0; i < 400 && !p_atomic_int_get(&key_gone); i++) HX_API_V("p_uthread_yield", 0, false, p_uthread_yield());
      return nullptr;            // the key object is gone by now; the thread does not touch it again
    }, &arg, TRUE, nullptr));
    if (!th) violate("create_returned_null", "p_uthread_create", "p_uthread_create failed");
    bool was_stored = false;
    for (int i = 0; i < 400 && !(was_stored = p_atomic_int_get(&stored) != 0); i++) yield_point();
    if (was_stored) {
      HX_API_V("p_uthread_local_free", 20, false, p_uthread_local_free(lk));
      p_atomic_int_set(&key_gone, 1);
      probe("tls.key_freed_while_value_held");
    }
    HX_API("p_uthread_join", 20, false, p_uthread_join(th));
    if (!was_stored) { HX_API_V("p_uthread_local_free", 20, false, p_uthread_local_free(lk)); }
    else if (late_calls != 1) violate(late_calls == 0 ? "tls_dtor_missing" : "tls_dtor_unexpected", "destroy notifier", "a value left at thread exit under a key that had been released meanwhile: notifier ran %d time(s), expected once", late_calls);
    HX_API_V("p_uthread_unref", 20, false, p_uthread_unref(th));
  }
  if (gen(6) == 0) {
    // the library is shut down by a thread that has a handle of its own and then ends as a thread (its TLS destructors run):
    // whatever the shut-down released must not be released again by that exit
    Task *t = spawn(0, []() {
      PUThread *me = HX_API("p_uthread_current", 0, false, p_uthread_current());
      if (!me) violate("current_null", "p_uthread_current", "p_uthread_current returned NULL in a foreign thread");
      lib_end();
      probe("thread.shutdown_by_exiting_thread");
    });
    t->is_thread = true;
    wait_all_others();
  } else
  lib_end();
  delete S; S = nullptr;
}

void configure(Config &c, Rng &) {
  swarm_schedule(c, 400);
  c.step_cap = 300000;
}

}  // namespace

SIM_HARNESS(threads, "C05", root, configure)
