// Conformance self-test of the simulated kernel: scripted single-threaded call sequences are executed against the
// REAL kernel (loopback TCP/UDP, real /dev/shm names with a unique prefix, real clock_nanosleep with a real signal)
// and against the simulated kernel; every recorded observation (return values, errno, revents bits, sizes, bytes)
// must agree. Not a property check: a disagreement is an infrastructure error (exit 2). `simbin conform`.
#include "common.h"
#include "../sim/kernel.h"
#include "../sim/knet.h"
#include "../sim/rawsys.h"
#include <arpa/inet.h>
#include <errno.h>
#include <fcntl.h>
#include <netinet/in.h>
#include <poll.h>
#include <semaphore.h>
#include <signal.h>
#include <stdarg.h>
#include <stdio.h>
#include <string.h>
#include <sys/mman.h>
#include <sys/stat.h>
#include <sys/time.h>
#include <time.h>
#include <unistd.h>
#include <string>
#include <vector>

extern "C" {
sem_t *simk_sem_open(const char *name, int oflag, ...);
int simk_sem_close(sem_t *);
int simk_sem_unlink(const char *);
int simk_sem_wait(sem_t *);
int simk_sem_post(sem_t *);
int simk_shm_open(const char *name, int oflag, mode_t);
int simk_shm_unlink(const char *);
int simk_ftruncate(int, off_t);
int simk_fstat(int, struct stat *);
void *simk_mmap(void *, size_t, int, int, int, off_t);
int simk_munmap(void *, size_t);
int simk_clock_nanosleep(clockid_t, int, const struct timespec *, struct timespec *);
int simk_getsockopt(int, int, int, void *, socklen_t *);
int simk_getpeername(int, struct sockaddr *, socklen_t *);
}

namespace {

using namespace hx;

struct OS {
  bool sim;
  int (*socket)(int, int, int); int (*bind)(int, const struct sockaddr *, socklen_t); int (*listen)(int, int); int (*accept)(int, struct sockaddr *, socklen_t *);
  int (*connect)(int, const struct sockaddr *, socklen_t); ssize_t (*send)(int, const void *, size_t, int); ssize_t (*sendto)(int, const void *, size_t, int, const struct sockaddr *, socklen_t);
  ssize_t (*recv)(int, void *, size_t, int); ssize_t (*recvfrom)(int, void *, size_t, int, struct sockaddr *, socklen_t *); int (*poll)(struct pollfd *, nfds_t, int);
  int (*shutdown)(int, int); int (*getsockopt)(int, int, int, void *, socklen_t *); int (*setsockopt)(int, int, int, const void *, socklen_t);
  int (*getsockname)(int, struct sockaddr *, socklen_t *); int (*getpeername)(int, struct sockaddr *, socklen_t *); int (*close)(int);
  int (*getfd)(int); int (*sem_close)(sem_t *); int (*sem_unlink)(const char *); int (*sem_wait)(sem_t *); int (*sem_post)(sem_t *);
  sem_t *(*sem_open4)(const char *, int, mode_t, unsigned); sem_t *(*sem_open2)(const char *, int);
  int (*shm_open)(const char *, int, mode_t); int (*shm_unlink)(const char *); int (*ftruncate)(int, off_t); int (*fstat)(int, struct stat *);
  void *(*mmap)(void *, size_t, int, int, int, off_t); int (*munmap)(void *, size_t);
  int (*nanosleep)(clockid_t, int, const struct timespec *, struct timespec *);
};

std::vector<std::string> *OBS;
std::string prefix;
void obs(const char *fmt, ...) { char b[300]; va_list ap; va_start(ap, fmt); vsnprintf(b, sizeof b, fmt, ap); va_end(ap); OBS->push_back(b); }

struct sockaddr_storage lo4(int port, socklen_t *len) { struct sockaddr_storage ss; memset(&ss, 0, sizeof ss); auto *in = (struct sockaddr_in *)&ss; in->sin_family = AF_INET; in->sin_port = htons((uint16_t)port); in->sin_addr.s_addr = htonl(INADDR_LOOPBACK); *len = sizeof *in; return ss; }
struct sockaddr_storage lo6(int port, socklen_t *len) { struct sockaddr_storage ss; memset(&ss, 0, sizeof ss); auto *in = (struct sockaddr_in6 *)&ss; in->sin6_family = AF_INET6; in->sin6_port = htons((uint16_t)port); in->sin6_addr = in6addr_loopback; *len = sizeof *in; return ss; }
int port_of(const OS &o, int fd) { struct sockaddr_storage ss; socklen_t l = sizeof ss; if (o.getsockname(fd, (struct sockaddr *)&ss, &l)) return -1; return ntohs(ss.ss_family == AF_INET ? ((struct sockaddr_in *)&ss)->sin_port : ((struct sockaddr_in6 *)&ss)->sin6_port); }
int pollfd1(const OS &o, int fd, short ev, int ms, short *rev) { struct pollfd p{fd, ev, 0}; int r = o.poll(&p, 1, ms); *rev = p.revents; return r; }
#define E(expr) ([&]() { errno = 0; long _r = (long)(expr); int _e = errno; char _b[64]; snprintf(_b, sizeof _b, "%ld/%d", _r < 0 ? -1L : _r, _r < 0 ? _e : 0); return std::string(_b); }())

void tcp_scripts(const OS &o, int af) {
  socklen_t sl; struct sockaddr_storage ss;
  auto lo = [&](int port) { return af == AF_INET ? lo4(port, &sl) : lo6(port, &sl); };
  short rev;
  // listener
  int l = o.socket(af, SOCK_STREAM | SOCK_NONBLOCK | SOCK_CLOEXEC, 0);
  obs("tcp%d socket ok=%d cloexec=%d", af, l >= 0, o.getfd(l));
  ss = lo(0); obs("tcp%d bind0 %s", af, E(o.bind(l, (struct sockaddr *)&ss, sl)).c_str());
  obs("tcp%d listen %s", af, E(o.listen(l, 4)).c_str());
  int port = port_of(o, l); obs("tcp%d port_nonzero=%d", af, port > 0);
  obs("tcp%d accept_empty %s", af, E(o.accept(l, nullptr, nullptr)).c_str());
  obs("tcp%d poll_listener_empty r=%d", af, pollfd1(o, l, POLLIN, 0, &rev));
  // second bind to the same port
  int l2 = o.socket(af, SOCK_STREAM | SOCK_NONBLOCK, 0); ss = lo(port); obs("tcp%d bind_in_use %s", af, E(o.bind(l2, (struct sockaddr *)&ss, sl)).c_str()); o.close(l2);
  // fresh unconnected socket
  int c = o.socket(af, SOCK_STREAM | SOCK_NONBLOCK, 0);
  int pr = pollfd1(o, c, POLLOUT | POLLIN, 0, &rev); obs("tcp%d poll_unconnected r=%d out=%d hup=%d", af, pr, !!(rev & POLLOUT), !!(rev & POLLHUP));
  obs("tcp%d getpeername_unconnected %s", af, E(o.getpeername(c, (struct sockaddr *)&ss, &(sl = sizeof ss))).c_str());
  obs("tcp%d recv_unconnected %s", af, E(o.recv(c, &ss, 4, 0)).c_str());
  obs("tcp%d send_unconnected %s", af, E(o.send(c, "x", 1, MSG_NOSIGNAL)).c_str());
  // non-blocking connect
  ss = lo(port); obs("tcp%d connect %s", af, E(o.connect(c, (struct sockaddr *)&ss, sl)).c_str());
  pr = pollfd1(o, c, POLLOUT, 1000, &rev); obs("tcp%d poll_connected r=%d out=%d err=%d", af, pr, !!(rev & POLLOUT), !!(rev & POLLERR));
  int soerr = -1; socklen_t ol = sizeof soerr; o.getsockopt(c, SOL_SOCKET, SO_ERROR, &soerr, &ol); obs("tcp%d so_error=%d", af, soerr);
  ss = lo(port); obs("tcp%d connect_again %s", af, E(o.connect(c, (struct sockaddr *)&ss, sl)).c_str());
  ss = lo(port); obs("tcp%d connect_third %s", af, E(o.connect(c, (struct sockaddr *)&ss, sl)).c_str());
  pr = pollfd1(o, l, POLLIN, 1000, &rev); obs("tcp%d poll_listener r=%d in=%d", af, pr, !!(rev & POLLIN));
  int a = o.accept(l, nullptr, nullptr); obs("tcp%d accept ok=%d cloexec=%d", af, a >= 0, o.getfd(a));
  obs("tcp%d peer_port_matches=%d", af, ([&]() { struct sockaddr_storage p; socklen_t pl = sizeof p; o.getpeername(a, (struct sockaddr *)&p, &pl); return ntohs(af == AF_INET ? ((struct sockaddr_in *)&p)->sin_port : ((struct sockaddr_in6 *)&p)->sin6_port) == port_of(o, c); })());
  int ty = 0; ol = sizeof ty; o.getsockopt(a, SOL_SOCKET, SO_TYPE, &ty, &ol); obs("tcp%d so_type_stream=%d", af, ty == SOCK_STREAM);
  int ka = 1; obs("tcp%d set_keepalive %s", af, E(o.setsockopt(a, SOL_SOCKET, SO_KEEPALIVE, &ka, sizeof ka)).c_str()); ka = 0; ol = sizeof ka; o.getsockopt(a, SOL_SOCKET, SO_KEEPALIVE, &ka, &ol); obs("tcp%d keepalive=%d", af, ka != 0);
  // data
  char buf[64];
  obs("tcp%d recv_empty %s", af, E(o.recv(a, buf, sizeof buf, MSG_DONTWAIT)).c_str());
  obs("tcp%d send5 %s", af, E(o.send(c, "hello", 5, MSG_NOSIGNAL)).c_str());
  pr = pollfd1(o, a, POLLIN, 1000, &rev); obs("tcp%d poll_data r=%d in=%d", af, pr, !!(rev & POLLIN));
  memset(buf, 0, sizeof buf); long n = o.recv(a, buf, 3, 0); obs("tcp%d recv3 n=%ld '%.3s'", af, n, buf);
  n = o.recv(a, buf, sizeof buf, 0); obs("tcp%d recv_rest n=%ld '%.2s'", af, n, buf);
  // half close
  obs("tcp%d shut_wr %s", af, E(o.shutdown(c, SHUT_WR)).c_str());
  pr = pollfd1(o, a, POLLIN, 1000, &rev); n = o.recv(a, buf, sizeof buf, 0); obs("tcp%d recv_after_fin r=%d n=%ld", af, pr, n);
  pr = pollfd1(o, c, POLLOUT, 0, &rev); obs("tcp%d poll_out_after_shut_wr r=%d out=%d", af, pr, !!(rev & POLLOUT));
  obs("tcp%d send_after_shut_wr %s", af, E(o.send(c, "x", 1, MSG_NOSIGNAL)).c_str());
  obs("tcp%d send_other_way %s", af, E(o.send(a, "yo", 2, MSG_NOSIGNAL)).c_str());
  pr = pollfd1(o, c, POLLIN, 1000, &rev); n = o.recv(c, buf, sizeof buf, 0); obs("tcp%d recv_other_way n=%ld", af, n);
  o.close(a);
  pr = pollfd1(o, c, POLLIN, 1000, &rev); n = o.recv(c, buf, sizeof buf, 0); obs("tcp%d recv_after_peer_close r=%d n=%ld", af, pr, n);
  o.close(c);
  // close with unread data -> reset
  c = o.socket(af, SOCK_STREAM | SOCK_NONBLOCK, 0); ss = lo(port); o.connect(c, (struct sockaddr *)&ss, sl); pollfd1(o, c, POLLOUT, 1000, &rev);
  pollfd1(o, l, POLLIN, 1000, &rev); a = o.accept(l, nullptr, nullptr);
  o.send(c, "unread", 6, MSG_NOSIGNAL); pollfd1(o, a, POLLIN, 1000, &rev);
  o.close(a);
  pr = pollfd1(o, c, POLLIN, 1000, &rev); obs("tcp%d poll_after_rst r=%d in=%d err_or_hup=%d", af, pr, !!(rev & POLLIN), !!(rev & (POLLERR | POLLHUP)));
  obs("tcp%d recv_after_rst %s", af, E(o.recv(c, buf, sizeof buf, 0)).c_str());
  // writing to a gone peer: an error within three attempts, never more than an error
  bool failed = false; int lasterr = 0; for (int i = 0; i < 3 && !failed; i++) { errno = 0; if (o.send(c, "z", 1, MSG_NOSIGNAL) < 0) { failed = true; lasterr = errno; } else pollfd1(o, c, POLLIN, 50, &rev); }
  obs("tcp%d send_to_gone_peer failed=%d epipe_or_reset=%d", af, failed, lasterr == EPIPE || lasterr == ECONNRESET);
  o.close(c);
  // connect to a port nobody listens on
  int dead = o.socket(af, SOCK_STREAM | SOCK_NONBLOCK, 0); ss = lo(0); o.bind(dead, (struct sockaddr *)&ss, sl); int deadport = port_of(o, dead); o.close(dead);
  c = o.socket(af, SOCK_STREAM | SOCK_NONBLOCK, 0); ss = lo(deadport);
  errno = 0; int cr = o.connect(c, (struct sockaddr *)&ss, sl); int ce = errno;
  pr = pollfd1(o, c, POLLOUT, 1000, &rev); soerr = 0; ol = sizeof soerr; o.getsockopt(c, SOL_SOCKET, SO_ERROR, &soerr, &ol);
  obs("tcp%d connect_refused immediate_or_inprogress=%d finally_refused=%d poll_r=%d", af, cr < 0 && (ce == EINPROGRESS || ce == ECONNREFUSED), (cr < 0 && ce == ECONNREFUSED) || soerr == ECONNREFUSED, pr);
  o.close(c);
  // full backlog: listen(0) accepts one pending connection, the next attempt stalls
  int lb = o.socket(af, SOCK_STREAM | SOCK_NONBLOCK, 0); ss = lo(0); o.bind(lb, (struct sockaddr *)&ss, sl); o.listen(lb, 0); int pb = port_of(o, lb);
  int c1 = o.socket(af, SOCK_STREAM | SOCK_NONBLOCK, 0); ss = lo(pb); o.connect(c1, (struct sockaddr *)&ss, sl); int r1 = pollfd1(o, c1, POLLOUT, 1000, &rev);
  int c2 = o.socket(af, SOCK_STREAM | SOCK_NONBLOCK, 0); ss = lo(pb); o.connect(c2, (struct sockaddr *)&ss, sl); int r2 = pollfd1(o, c2, POLLOUT, 200, &rev);
  obs("tcp%d backlog0 first_connects=%d second_stalls=%d", af, r1 == 1, r2 == 0);
  o.close(c1); o.close(c2); o.close(lb);
  obs("tcp%d close_bad %s", af, E(o.close(-1)).c_str());
  obs("tcp%d send_bad_fd %s", af, E(o.send(-1, "x", 1, 0)).c_str());
  o.close(l);
}

void udp_scripts(const OS &o, int af) {
  socklen_t sl; struct sockaddr_storage ss;
  auto lo = [&](int port) { return af == AF_INET ? lo4(port, &sl) : lo6(port, &sl); };
  short rev; char buf[256];
  int a = o.socket(af, SOCK_DGRAM | SOCK_NONBLOCK, 0), b = o.socket(af, SOCK_DGRAM | SOCK_NONBLOCK, 0);
  ss = lo(0); obs("udp%d bind %s", af, E(o.bind(a, (struct sockaddr *)&ss, sl)).c_str());
  int pa = port_of(o, a);
  obs("udp%d recv_empty %s", af, E(o.recvfrom(a, buf, sizeof buf, 0, nullptr, nullptr)).c_str());
  int pr = pollfd1(o, a, POLLIN, 0, &rev); obs("udp%d poll_in_empty r=%d", af, pr);
  pr = pollfd1(o, b, POLLOUT, 0, &rev); obs("udp%d poll_out r=%d out=%d", af, pr, !!(rev & POLLOUT));
  char msg[100]; for (int i = 0; i < 100; i++) msg[i] = (char)('a' + i % 26);
  ss = lo(pa); obs("udp%d sendto100 %s", af, E(o.sendto(b, msg, 100, 0, (struct sockaddr *)&ss, sl)).c_str());
  int pb = port_of(o, b); obs("udp%d autobind_port_nonzero=%d", af, pb > 0);
  pr = pollfd1(o, a, POLLIN, 1000, &rev); obs("udp%d poll_in r=%d", af, pr);
  struct sockaddr_storage from; socklen_t fl = sizeof from; memset(buf, 0, sizeof buf);
  long n = o.recvfrom(a, buf, 10, 0, (struct sockaddr *)&from, &fl);
  int fport = ntohs(af == AF_INET ? ((struct sockaddr_in *)&from)->sin_port : ((struct sockaddr_in6 *)&from)->sin6_port);
  obs("udp%d recv_truncated n=%ld '%.10s' from_port_is_sender=%d fam_ok=%d", af, n, buf, fport == pb, from.ss_family == af);
  obs("udp%d rest_discarded %s", af, E(o.recvfrom(a, buf, sizeof buf, 0, nullptr, nullptr)).c_str());
  ss = lo(pa); o.sendto(b, "one", 3, 0, (struct sockaddr *)&ss, sl); o.sendto(b, "two22", 5, 0, (struct sockaddr *)&ss, sl);
  pollfd1(o, a, POLLIN, 1000, &rev); long n1 = o.recvfrom(a, buf, sizeof buf, 0, nullptr, nullptr); pollfd1(o, a, POLLIN, 1000, &rev); long n2 = o.recvfrom(a, buf, sizeof buf, 0, nullptr, nullptr);
  obs("udp%d two_datagrams n1=%ld n2=%ld", af, n1, n2);
  ss = lo(pa); obs("udp%d connect %s", af, E(o.connect(b, (struct sockaddr *)&ss, sl)).c_str());
  obs("udp%d send_connected %s", af, E(o.send(b, "conn", 4, 0)).c_str());
  pollfd1(o, a, POLLIN, 1000, &rev); n = o.recvfrom(a, buf, sizeof buf, 0, nullptr, nullptr); obs("udp%d recv_connected n=%ld", af, n);
  int ty = 0; socklen_t ol = sizeof ty; o.getsockopt(a, SOL_SOCKET, SO_TYPE, &ty, &ol); obs("udp%d so_type_dgram=%d", af, ty == SOCK_DGRAM);
  obs("udp%d listen_on_dgram %s", af, E(o.listen(a, 1)).c_str());
  o.close(a); o.close(b);
}

void ipc_scripts(const OS &o) {
  std::string sn = prefix + "-sem", mn = prefix + "-shm";
  o.sem_unlink(sn.c_str()); o.shm_unlink(mn.c_str());
  obs("sem unlink_missing %s", E(o.sem_unlink(sn.c_str())).c_str());
  errno = 0; sem_t *m = o.sem_open2(sn.c_str(), 0); obs("sem open_missing failed=%d errno=%d", m == SEM_FAILED, errno);
  errno = 0; sem_t *s1 = o.sem_open4(sn.c_str(), O_CREAT | O_EXCL, 0660, 2); obs("sem create ok=%d", s1 != SEM_FAILED);
  errno = 0; sem_t *s2 = o.sem_open4(sn.c_str(), O_CREAT | O_EXCL, 0660, 5); obs("sem create_again failed=%d errno=%d", s2 == SEM_FAILED, errno);
  sem_t *s3 = o.sem_open2(sn.c_str(), 0); obs("sem reopen same_pointer=%d", s3 == s1);
  obs("sem wait1 %s", E(o.sem_wait(s1)).c_str()); obs("sem wait2_via_second_handle %s", E(o.sem_wait(s3)).c_str());
  obs("sem post %s", E(o.sem_post(s1)).c_str()); obs("sem wait3 %s", E(o.sem_wait(s3)).c_str());
  obs("sem unlink %s", E(o.sem_unlink(sn.c_str())).c_str());
  obs("sem post_after_unlink %s", E(o.sem_post(s1)).c_str()); obs("sem wait_after_unlink %s", E(o.sem_wait(s1)).c_str());
  sem_t *s4 = o.sem_open4(sn.c_str(), O_CREAT, 0660, 1); obs("sem recreate new_object=%d", s4 != s1 && s4 != SEM_FAILED);
  obs("sem value_of_new_is_1 %s", E(o.sem_wait(s4)).c_str());
  o.sem_close(s3); o.sem_close(s1); o.sem_close(s4); o.sem_unlink(sn.c_str());
  errno = 0; sem_t *big = o.sem_open4(sn.c_str(), O_CREAT | O_EXCL, 0660, (unsigned)SEM_VALUE_MAX + 1u); obs("sem value_too_big failed=%d errno=%d", big == SEM_FAILED, errno);
  if (big != SEM_FAILED) { o.sem_close(big); o.sem_unlink(sn.c_str()); }
  // shm
  obs("shm unlink_missing %s", E(o.shm_unlink(mn.c_str())).c_str());
  obs("shm open_missing %s", E(o.shm_open(mn.c_str(), O_RDWR, 0660)).c_str());
  int fd = o.shm_open(mn.c_str(), O_CREAT | O_EXCL | O_RDWR, 0660); obs("shm create ok=%d cloexec=%d", fd >= 0, o.getfd(fd));
  struct stat st; o.fstat(fd, &st); obs("shm new_size=%ld", (long)st.st_size);
  errno = 0; void *z = o.mmap(nullptr, 0, PROT_READ | PROT_WRITE, MAP_SHARED, fd, 0); obs("shm mmap_len0 failed=%d errno=%d", z == MAP_FAILED, errno);
  obs("shm create_again %s", E(o.shm_open(mn.c_str(), O_CREAT | O_EXCL | O_RDWR, 0660)).c_str());
  obs("shm ftruncate %s", E(o.ftruncate(fd, 5000)).c_str()); o.fstat(fd, &st); obs("shm size=%ld", (long)st.st_size);
  char *p1 = (char *)o.mmap(nullptr, 5000, PROT_READ | PROT_WRITE, MAP_SHARED, fd, 0);
  int fd2 = o.shm_open(mn.c_str(), O_RDWR, 0660); char *p2 = (char *)o.mmap(nullptr, 5000, PROT_READ, MAP_SHARED, fd2, 0);
  obs("shm zero_filled=%d", p1 != MAP_FAILED && p1[0] == 0 && p1[4999] == 0);
  if (p1 != MAP_FAILED) { p1[0] = 'Q'; p1[4999] = 'Z'; }
  obs("shm second_mapping_sees=%d", p2 != MAP_FAILED && p2[0] == 'Q' && p2[4999] == 'Z');
  obs("shm close %s", E(o.close(fd)).c_str()); obs("shm close_twice %s", E(o.close(fd)).c_str());
  obs("shm mapping_survives_close=%d", p1 != MAP_FAILED && p1[0] == 'Q');
  obs("shm unlink %s", E(o.shm_unlink(mn.c_str())).c_str());
  obs("shm mapping_survives_unlink=%d", p2 != MAP_FAILED && p2[4999] == 'Z');
  obs("shm munmap %s", E(o.munmap(p1, 5000)).c_str()); o.munmap(p2, 5000); o.close(fd2);
  int fd3 = o.shm_open(mn.c_str(), O_CREAT | O_EXCL | O_RDWR, 0660); o.fstat(fd3, &st); obs("shm recreated_size=%ld", (long)st.st_size); o.close(fd3); o.shm_unlink(mn.c_str());
}

void clock_scripts(const OS &o) {
  struct timespec req{0, 2000000}, rem{9, 9};
  errno = 77; int r = o.nanosleep(CLOCK_MONOTONIC, 0, &req, &rem); obs("sleep plain ret=%d errno_untouched=%d", r, errno == 77);
  struct timespec bad{0, 2000000000L}; errno = 77; r = o.nanosleep(CLOCK_MONOTONIC, 0, &bad, &rem); obs("sleep bad_nsec ret=%d errno_untouched=%d", r, errno == 77);
  // interrupted by a handled signal (no SA_RESTART)
  struct timespec lng{0, 300000000}; rem = {0, 0};
  if (o.sim) kern::plan_eintr(kern::SC_NANOSLEEP, kern::calls_made(kern::SC_NANOSLEEP) + 1);
  else { struct sigaction sa; memset(&sa, 0, sizeof sa); sa.sa_handler = [](int) {}; sigaction(SIGALRM, &sa, nullptr); struct itimerval it{{0, 0}, {0, 20000}}; setitimer(ITIMER_REAL, &it, nullptr); }
  errno = 77; r = o.nanosleep(CLOCK_MONOTONIC, 0, &lng, &rem);
  long remns = rem.tv_sec * 1000000000L + rem.tv_nsec;
  obs("sleep interrupted ret_is_eintr=%d errno_untouched=%d rem_positive=%d rem_less_than_req=%d", r == EINTR, errno == 77, remns > 0, remns < 300000000L);
  if (!o.sim) signal(SIGALRM, SIG_DFL);
}

void all_scripts(const OS &o) {
  tcp_scripts(o, AF_INET); tcp_scripts(o, AF_INET6);
  udp_scripts(o, AF_INET); udp_scripts(o, AF_INET6);
  ipc_scripts(o);
  clock_scripts(o);
}

int real_getfd(int fd) { return fcntl(fd, F_GETFD) & FD_CLOEXEC ? 1 : 0; }
int sim_getfd(int fd) { return simk_fcntl(fd, F_GETFD, 0) & FD_CLOEXEC ? 1 : 0; }
sem_t *real_so4(const char *n, int f, mode_t m, unsigned v) { return sem_open(n, f, m, v); }
sem_t *real_so2(const char *n, int f) { return sem_open(n, f); }
sem_t *sim_so4(const char *n, int f, mode_t m, unsigned v) { return simk_sem_open(n, f, m, v); }
sem_t *sim_so2(const char *n, int f) { return simk_sem_open(n, f); }

OS real_os() { return OS{false, socket, bind, listen, accept, connect, send, sendto, recv, recvfrom, poll, shutdown, getsockopt, setsockopt, getsockname, getpeername, close, real_getfd,
                         sem_close, sem_unlink, sem_wait, sem_post, real_so4, real_so2, shm_open, shm_unlink, ftruncate, fstat, mmap, munmap, clock_nanosleep}; }
OS sim_os() { return OS{true, simk_socket, simk_bind, simk_listen, simk_accept, simk_connect, simk_send, simk_sendto, simk_recv, simk_recvfrom, simk_poll, simk_shutdown, simk_getsockopt, simk_setsockopt,
                        simk_getsockname, simk_getpeername, simk_close, sim_getfd, simk_sem_close, simk_sem_unlink, simk_sem_wait, simk_sem_post, sim_so4, sim_so2, simk_shm_open, simk_shm_unlink,
                        simk_ftruncate, simk_fstat, simk_mmap, simk_munmap, simk_clock_nanosleep}; }

std::vector<std::string> g_sim_obs;
void sim_root() {
  hooks().completion_required = false;
  lib_begin();
  kern::set_net_defaults(65536, 65536, false);
  OBS = &g_sim_obs;
  all_scripts(sim_os());
  lib_end();
}
void configure(Config &c, Rng &) { c.policy = POL_RANDOM; c.switch_p = 0; c.step_cap = 1000000; }

}  // namespace

SIM_HARNESS(conform, "-", sim_root, configure)

int conform_main() {
  char pf[64]; snprintf(pf, sizeof pf, "/vpconf-%d", (int)getpid());
  prefix = pf;
  std::vector<std::string> real_obs;
  OBS = &real_obs;
  all_scripts(real_os());
  sim::Run out;
  g_sim_obs.clear();
  sim::run_one(sim::find_harness("conform"), 12345, nullptr, false, nullptr, &out);
  if (out.res.status != sim::RS_OK) { fprintf(stderr, "conformance: simulated side did not complete: %s %s\n", out.res.cls.c_str(), out.res.msg.c_str()); return 2; }
  size_t n = std::max(real_obs.size(), g_sim_obs.size()), bad = 0;
  for (size_t i = 0; i < n; i++) {
    std::string r = i < real_obs.size() ? real_obs[i] : "<missing>", s = i < g_sim_obs.size() ? g_sim_obs[i] : "<missing>";
    if (r != s) { bad++; fprintf(stderr, "CONFORMANCE MISMATCH\n  real: %s\n  sim:  %s\n", r.c_str(), s.c_str()); }
  }
  printf("{\"type\":\"conformance\",\"observations\":%zu,\"mismatches\":%zu}\n", n, bad);
  return bad ? 2 : 0;
}
