// C07 — shared memory: same name = same bytes, size rules, system-wide lock, crash recovery, no mapping residue.
#include "common.h"
#include "../sim/kernel.h"
#include <string.h>
#include <deque>

using namespace hx;

namespace {

constexpr int MAXN = 2, MAXHND = 48;
// names are drawn per run from a pool: short, differing in one character, and long names that share a long prefix
const char *name_pool[] = {"vp-shm-alpha", "vp-shm-beta", "a", "b", "vp-shm-alphb",
                           "vp/shm/an-application-with-a-rather-long-common-prefix/segment-number-00000001",
                           "vp/shm/an-application-with-a-rather-long-common-prefix/segment-number-00000002",
                           "vp/shm/an-application-with-a-rather-long-common-prefix/segment-number-00000001 "};
const char *user_names[MAXN] = {"vp-shm-alpha", "vp-shm-beta"};
void pick_names() {
  uint32_t a = gen(8), b = gen(7);
  if (b >= a) b++;
  user_names[0] = name_pool[a]; user_names[1] = name_pool[b];
  if (strlen(user_names[0]) > 50 && strlen(user_names[1]) > 50) sim::probe("ipc.long_names_common_prefix");
}

struct Epoch {
  int name; int kobj; size_t size;              // size = what the creator asked for
  std::vector<uint8_t> bytes;                   // model content
  int holders = 0;                              // shadow lock holder count over all handles of the epoch
  std::map<size_t, size_t> reported;            // size argument -> reported size (must be a function)
  bool uncertain = false;                       // a killed process was using it
};
struct Hnd { PShm *h = nullptr; int name = 0, epoch = -1, proc = 0, task = -1, lock_obj = -1; bool adopted_empty = false; bool owner = false, live = false, ro = false, locked = false; size_t size = 0; uint8_t *addr = nullptr; };

struct St {
  std::deque<Epoch> epochs;
  int bound[MAXN], latest[MAXN];
  std::string shm_key[MAXN], sem_key[MAXN];
  Hnd hs[MAXHND]; int nh = 0;
  int token_owner = -1;
  bool stop = false, kill_seen = false;
  int kill_victim = -1;
  uint8_t next_val = 1;
};
St *S;

void token_take() {
  while (S->token_owner != -1) {
    Task *o = task(S->token_owner);
    if (!o || o->state == T_DEAD || o->state == T_FINISHED) { S->token_owner = -1; break; }
    block(B_HOLD, 0);
  }
  S->token_owner = cur()->id;
}
void token_give() {
  S->token_owner = -1;
  for (int i = 0; i < ntasks(); i++) { Task *t = task(i); if (t->state == T_BLOCKED && t->bkind == B_HOLD) wake(t); }
}

int live_handles_in(int proc) { int n = 0; for (int h = 0; h < S->nh; h++) if (S->hs[h].live && S->hs[h].proc == proc) n++; return n; }

void resync_after_kill() {
  S->kill_seen = true;
  for (int n = 0; n < MAXN; n++) {
    int ko = S->shm_key[n].empty() ? -1 : kern::shm_obj_of_name(S->shm_key[n].c_str());
    if (ko < 0) { S->bound[n] = -1; continue; }
    int found = -1;
    for (size_t e = 0; e < S->epochs.size(); e++) if (S->epochs[e].kobj == ko) found = (int)e;
    if (found < 0) { Epoch e; e.name = n; e.kobj = ko; e.size = kern::shm_size(ko); e.bytes.assign(e.size, 0); e.uncertain = true; S->epochs.push_back(e); found = (int)S->epochs.size() - 1; }
    S->bound[n] = found; S->latest[n] = found;
  }
  for (auto &e : S->epochs) e.uncertain = true;      // the victim may hold a lock or have written anywhere
  for (int h = 0; h < S->nh; h++) if (S->hs[h].live && kern::proc_dead(S->hs[h].proc)) S->hs[h].live = false;
}
void sync_if_killed() { if (!S->kill_seen && S->kill_victim > 0 && kern::proc_dead(S->kill_victim)) resync_after_kill(); }

// touch first byte, last byte and one byte per page: every byte below get_size must be accessible
void sweep(Hnd &H) {
  ApiScope as("shm_access", H.name, false);
  volatile uint8_t *p = H.addr;
  uint8_t acc = 0;
  for (size_t off = 0; off < H.size; off += 4096) acc ^= p[off];
  acc ^= p[H.size - 1];
  if (!H.ro) { uint8_t v = p[H.size - 1]; p[H.size - 1] = v; uint8_t w = p[0]; p[0] = w; }
  (void)acc;
}

int do_new(int name, size_t size, bool ro, bool use_token = true, bool same_size = true) {
  if (S->nh >= MAXHND) return -1;
  if (use_token) { token_take(); sync_if_killed(); }
  bool was_bound = S->bound[name] != -1;
  int proc = cur()->proc;
  int fds0 = kern::fd_count(proc);
  PError *err = nullptr;
  PShm *h = HX_API("p_shm_new", name, false, p_shm_new(user_names[name], size, ro ? P_SHM_ACCESS_READONLY : P_SHM_ACCESS_READWRITE, &err));
  bool created_here = kern::last_shm_created();
  (void)created_here;
  if (!h) {
    int native = err ? p_error_get_native_code(err) : 0;
    char key[96];
    int ko = S->shm_key[name].empty() ? -1 : kern::shm_obj_of_name(S->shm_key[name].c_str());
    if (S->kill_seen && ko >= 0 && kern::shm_size(ko) == 0) snprintf(key, sizeof key, "zero_size_segment_left_by_killed_creator");
    else if (use_token) snprintf(key, sizeof key, "serial,name_%s", was_bound ? "exists" : "absent"); else snprintf(key, sizeof key, "concurrent_first_time_creators");
    violate("new_failed", key, "p_shm_new(%s, %zu) returned NULL (native error %d) although the name %s", user_names[name], size, native, was_bound ? "exists" : "does not exist");
  }
  if (kern::fd_count(proc) != fds0) violate("descriptor_left_open", "p_shm_new", "p_shm_new left %d descriptor(s) open: %s", kern::fd_count(proc) - fds0, kern::fd_desc(proc).c_str());
  int kobj = kern::last_shm_obj();
  if (S->shm_key[name].empty()) { S->shm_key[name] = kern::last_shm_name(); S->sem_key[name] = kern::last_sem_name(); }
  else if (S->shm_key[name] != kern::last_shm_name()) violate("name_key_changed", "p_shm_new", "one name mapped to two system keys");
  for (int n = 0; n < MAXN; n++) if (n != name && !S->shm_key[n].empty() && S->shm_key[n] == S->shm_key[name]) violate("names_collide", "p_shm_new", "two names share one segment");
  size_t rep = p_shm_get_size(h);
  uint8_t *addr = (uint8_t *)p_shm_get_address(h);
  if (!addr || rep == 0) violate("bad_handle", "p_shm_new", "handle with NULL address or zero size");
  int ei;
  if (use_token) {
    if (!was_bound) {
      Epoch e; e.name = name; e.kobj = kobj; e.size = size; e.bytes.assign(size, 0);
      S->epochs.push_back(e);
      ei = (int)S->epochs.size() - 1;
      S->bound[name] = ei; S->latest[name] = ei;
      if (rep != size) violate("creator_wrong_size", "p_shm_new", "creator asked for %zu bytes, p_shm_get_size reports %zu", size, rep);
      for (size_t i = 0; i < size; i += (size > 64 ? size / 13 + 1 : 1)) if (addr[i] != 0) violate("fresh_segment_not_zero", "p_shm_new", "fresh segment has non-zero byte at %zu", i);
      probe("shm.created");
    } else {
      ei = S->bound[name];
      Epoch &e = S->epochs[ei];
      if (e.kobj != kobj) violate("open_not_shared", "p_shm_new", "open of existing name '%s' attached to another object than the other handles", user_names[name]);
      if (rep > kern::shm_size(kobj)) violate("reported_size_too_big", "p_shm_new", "reported size %zu exceeds the segment (%zu)", rep, kern::shm_size(kobj));
      probe(size < e.size ? "shm.opened_smaller" : size > e.size ? "shm.opened_larger" : "shm.opened_same_size");
    }
    Epoch &e = S->epochs[ei];
    auto it = e.reported.find(size);
    if (it == e.reported.end()) e.reported[size] = rep;
    else if (it->second != rep) violate("same_size_arg_different_report", "p_shm_get_size", "two handles of '%s' created with size %zu report %zu and %zu", user_names[name], size, it->second, rep);
  } else {
    // concurrent first-time creators: attribute by kernel object
    ei = -1;
    for (size_t e = 0; e < S->epochs.size(); e++) if (S->epochs[e].kobj == kobj) ei = (int)e;
    if (ei < 0) { Epoch e; e.name = name; e.kobj = kobj; e.size = size; e.bytes.assign(size, 0); S->epochs.push_back(e); ei = (int)S->epochs.size() - 1; S->bound[name] = ei; S->latest[name] = ei; }
    if (same_size && rep != size) violate("creator_wrong_size", "p_shm_new", "all creators asked for %zu bytes, one sees %zu", size, rep);
    if (rep > size) violate("reported_size_too_big", "p_shm_new", "asked for %zu bytes, p_shm_get_size reports %zu", size, rep);
  }
  Hnd &H = S->hs[S->nh];
  H.lock_obj = kern::last_sem_obj();
  H.adopted_empty = !kern::last_shm_created() && kern::last_fstat_size() == 0;   // the library handed out a handle for a segment whose size it had read as 0
  H.h = h; H.name = name; H.epoch = ei; H.proc = proc; H.task = cur()->id; H.owner = use_token ? !was_bound : kern::last_shm_created(); H.live = true; H.ro = ro; H.size = rep; H.addr = addr; H.locked = false;
  int idx = S->nh++;
  if (kern::mapping_count(proc) != live_handles_in(proc))
    violate("mapping_count_mismatch", "p_shm_new", "process holds %d handle(s) but %d mapping(s): %s", live_handles_in(proc), kern::mapping_count(proc), kern::mapping_desc(proc).c_str());
  sweep(H);
  order_ev(name, 1, cur()->id);
  if (use_token) token_give();
  return idx;
}

void do_free(int hi) {
  Hnd &H = S->hs[hi];
  token_take();
  sync_if_killed();
  Epoch &e = S->epochs[H.epoch];
  if (H.locked) { H.locked = false; e.holders--; }   // freeing while locked is the caller's business; the model just drops it
  H.live = false;
  bool owner = H.owner;
  if (owner) S->bound[H.name] = -1;
  HX_API_V("p_shm_free", H.name, false, p_shm_free(H.h));
  int proc = cur()->proc;
  if (kern::mapping_count(proc) != live_handles_in(proc))
    violate("mapping_residue", "p_shm_free", "after p_shm_free the process holds %d handle(s) but %d mapping(s) remain: %s", live_handles_in(proc), kern::mapping_count(proc), kern::mapping_desc(proc).c_str());
  if (!S->kill_seen) {
    bool kb = kern::shm_name_bound(S->shm_key[H.name].c_str()), sb = kern::sem_name_bound(S->sem_key[H.name].c_str());
    if (owner && kb) violate("owner_free_left_name", "p_shm_free", "owner freed '%s' but the segment name still exists", user_names[H.name]);
    if (owner && sb) violate("owner_free_left_lock_name", "p_shm_free", "owner freed '%s' but the name of its lock still exists", user_names[H.name]);
    if (!owner && S->bound[H.name] != -1 && (!kb || !sb)) violate("non_owner_free_removed_name", "p_shm_free", "a non-owner free removed '%s' (or its lock) from the system", user_names[H.name]);
  }
  if (owner) probe("shm.owner_free");
  order_ev(H.name, 2, cur()->id);
  token_give();
}

void do_lock(int hi) {
  Hnd &H = S->hs[hi];
  Epoch &e = S->epochs[H.epoch];
  PError *err = nullptr;
  if (!HX_API("p_shm_lock", H.name, false, p_shm_lock(H.h, &err))) violate("lock_failed", "p_shm_lock", "p_shm_lock returned FALSE (native %d)", err ? p_error_get_native_code(err) : 0);
  H.locked = true;
  if (++e.holders > 1 && !e.uncertain) violate("two_lock_holders", "serial", "two handles of '%s' hold its lock at the same time", user_names[e.name]);
  order_ev(H.name, 3, cur()->id);
}
void do_unlock(int hi) {
  Hnd &H = S->hs[hi];
  Epoch &e = S->epochs[H.epoch];
  H.locked = false; e.holders--;
  if (!HX_API("p_shm_unlock", H.name, false, p_shm_unlock(H.h, nullptr))) violate("unlock_failed", "p_shm_unlock", "p_shm_unlock returned FALSE");
}

// data access under the lock: write a fresh value / compare with the model
void do_data(int hi, bool write) {
  Hnd &H = S->hs[hi];
  Epoch &e = S->epochs[H.epoch];
  size_t lim = std::min(H.size, e.bytes.size());
  if (lim == 0) return;
  do_lock(hi);
  {
    ApiScope as("shm_access", H.name, false);
    static const size_t picks[] = {0, 1, 7, 4095, 4096, 4097, 8191, 9999};
    size_t off = gen(3) == 0 ? lim - 1 : (gen(2) ? picks[gen(8)] % lim : gen((uint32_t)lim));
    if (write && !H.ro) {
      uint8_t v = S->next_val++; if (!S->next_val) S->next_val = 1;
      hb::plain_write(H.addr + off, 1, "segment byte");
      H.addr[off] = v;
      e.bytes[off] = v;
      probe("shm.byte_written");
    } else {
      hb::plain_read(H.addr + off, 1, "segment byte");
      uint8_t got = H.addr[off];
      if (got != e.bytes[off] && !e.uncertain)
        violate("byte_mismatch", "shm_access", "offset %zu of '%s' reads %u through this handle, %u was stored through another", off, user_names[e.name], got, e.bytes[off]);
      probe("shm.byte_read");
    }
  }
  do_unlock(hi);
}

void script(int nops) {
  int me = cur()->id;
  static const size_t sizes[] = {1, 7, 4096, 4097, 10000, 64, 12288, 65536};
  for (int i = 0; i < nops && !S->stop; i++) {
    if (kern::proc_dead(cur()->proc)) return;
    std::vector<int> mine;
    for (int h = 0; h < S->nh; h++) if (S->hs[h].live && S->hs[h].task == me) mine.push_back(h);
    uint32_t r = gen(12);
    if (mine.empty() || r < 2) {
      if (mine.size() < 3) {
        size_t sz = gen(4) == 0 ? 1 + gen(65536) : sizes[gen(8)];
        do_new((int)gen(MAXN), sz, gen(5) == 0);
      }
    } else {
      int hi = mine[gen((uint32_t)mine.size())];
      Hnd &H = S->hs[hi];
      bool current = S->latest[H.name] == H.epoch && S->bound[H.name] == H.epoch;
      if (r < 6 && current) do_data(hi, gen(2));
      else if (r < 7 && current) { do_lock(hi); yield_point(); do_unlock(hi); }
      else if (r < 8) { sweep(H); }
      else if (r < 9) { HX_API_V("p_shm_take_ownership", H.name, false, p_shm_take_ownership(H.h)); H.owner = true; probe("shm.take_ownership"); }
      else if (r < 10) do_free(hi);
      else yield_point();
    }
    if (S->kill_victim > 0 && kern::proc_dead(S->kill_victim)) S->stop = true;
  }
  // never leave a lock held at the end of a script
}

bool on_quiescence() {
  sync_if_killed();
  if (S->token_owner != -1) {
    Task *o = task(S->token_owner);
    if (!o || o->state == T_DEAD || o->state == T_FINISHED) { token_give(); return true; }
  }
  // after a kill the victim may have died holding a lock: survivors blocked on it are cancelled (documented hazard)
  bool handled = false;
  if (S->kill_seen) {
    for (int i = 0; i < ntasks(); i++) { Task *t = task(i); if (t->state == T_BLOCKED && t->bkind == B_SEM) { kill_task(t); handled = true; probe("shm.lock_wait_cancelled_after_kill"); } }
  }
  return handled;
}

// 2-3 processes open a fresh name at the same time, then all increment a plain counter in the segment under the lock
void concurrent_creators() {
  int np = (int)gen_range(2, 3);
  static const size_t csz[] = {64, 64, 4096, 100000, 5000};
  size_t size = csz[gen(5)];
  bool same_size = gen(2);            // all creators ask for the same size, or each for its own
  int rounds = (int)gen_range(1, 3);
  describe("mode=concurrent_first_time_creators procs=%d rounds=%d", np, rounds);
  int *done = new int(0);
  int np_all = np;
  for (int p = 1; p <= np; p++) spawn(p, [rounds, size, done, np_all, same_size, p]() {
    size_t my_size = same_size ? size : (p == 1 ? 300 : size * (size_t)p);
    int hi = do_new(0, my_size, false, false, same_size);
    Hnd &H = S->hs[hi];
    Epoch &e = S->epochs[H.epoch];
    // wait until every creator has its handle, then all of them must be on one segment and one lock object
    (*done)++;
    while (*done < np_all) block(B_BARRIER, 0);
    for (int i = 0; i < ntasks(); i++) { Task *t = task(i); if (t->state == T_BLOCKED && t->bkind == B_BARRIER) wake(t); }
    for (int h = 0; h < S->nh; h++) if (S->hs[h].live) {
      if (S->hs[h].epoch != H.epoch) violate("creators_not_on_one_segment", "concurrent_first_time_creators", "processes opening one fresh name concurrently ended up on different segments");
      if (S->hs[h].lock_obj != H.lock_obj) violate("creators_on_different_locks", (S->hs[h].adopted_empty || H.adopted_empty) ? "concurrent_first_time_creators,handle_on_segment_found_empty" : "concurrent_first_time_creators", "processes opening one fresh name concurrently ended up with different lock semaphores: p_shm_lock does not exclude them");
    }
    for (int r = 0; r < rounds; r++) {
      PError *err = nullptr;
      if (!HX_API("p_shm_lock", 0, false, p_shm_lock(H.h, &err))) violate("lock_failed", "p_shm_lock", "p_shm_lock returned FALSE");
      // all handles of the NAME must exclude each other, whatever object they ended up on
      int holders = 0;
      for (int h = 0; h < S->nh; h++) if (S->hs[h].live && S->hs[h].locked) holders++;
      H.locked = true;
      if (holders >= 1) violate("two_lock_holders", "concurrent_first_time_creators", "two processes hold the lock of one name at the same time after opening it concurrently for the first time");
      {
        ApiScope as("shm_access", 0, false);
        hb::plain_read(H.addr, 4, "segment counter");
        uint32_t v; memcpy(&v, H.addr, 4);
        yield_point();
        v++;
        hb::plain_write(H.addr, 4, "segment counter");
        memcpy(H.addr, &v, 4);
      }
      H.locked = false;
      if (!HX_API("p_shm_unlock", 0, false, p_shm_unlock(H.h, nullptr))) violate("unlock_failed", "p_shm_unlock", "p_shm_unlock returned FALSE");
    }
    (void)e;
  });
  wait_all_others();
  // all handles must see one counter with every increment
  for (int h = 0; h < S->nh; h++) if (S->hs[h].live) {
    uint32_t v; memcpy(&v, S->hs[h].addr, 4);
    if (v != (uint32_t)(np * rounds)) violate("creators_not_on_one_segment", "concurrent_first_time_creators", "a handle sees counter %u after %d increments", v, np * rounds);
  }
  probe("shm.concurrent_creators_ok");
  delete done;
}

void wind_down_and_recover(int np, bool check_model) {
  for (int p = 1; p <= np; p++) {
    if (kern::proc_dead(p)) continue;
    if (!live_handles_in(p)) continue;
    spawn(p, [p]() {
      // one owner per name so that nothing stays behind
      for (int h = 0; h < S->nh; h++) if (S->hs[h].live && S->hs[h].proc == p) { S->hs[h].task = cur()->id; do_free(h); }
    });
    wait_all_others();
  }
  (void)check_model;
  // documented clean-up from a fresh process: open, take ownership, free; then create again
  spawn(9, []() {
    for (int n = 0; n < MAXN; n++) {
      PError *err = nullptr;
      bool zero_left = false;
      if (!S->shm_key[n].empty()) { int ko = kern::shm_obj_of_name(S->shm_key[n].c_str()); zero_left = ko >= 0 && kern::shm_size(ko) == 0; }
      PShm *h = HX_API("p_shm_new", n, false, p_shm_new(user_names[n], 100, P_SHM_ACCESS_READWRITE, &err));
      if (!h) violate("recovery_open_failed", zero_left ? "zero_size_segment_left_by_killed_creator" : "other", "clean-up open of '%s' failed (native %d)%s", user_names[n], err ? p_error_get_native_code(err) : 0,
                      zero_left ? ": a creator killed between shm_open and ftruncate left a 0-byte segment nobody can map" : "");
      std::string kshm = kern::last_shm_name(), ksem = kern::last_sem_name();
      HX_API_V("p_shm_take_ownership", n, false, p_shm_take_ownership(h));
      HX_API_V("p_shm_free", n, false, p_shm_free(h));
      if (kern::shm_name_bound(kshm.c_str()) || kern::sem_name_bound(ksem.c_str())) violate("recovery_left_name", "p_shm_free", "open / take ownership / free left '%s' or its lock in the system", user_names[n]);
      size_t want = 33 + 4096 * (size_t)n;
      PShm *h2 = HX_API("p_shm_new", n, false, p_shm_new(user_names[n], want, P_SHM_ACCESS_READWRITE, &err));
      if (!h2) violate("recovery_create_failed", "p_shm_new", "re-creation of '%s' after clean-up failed", user_names[n]);
      if (p_shm_get_size(h2) != want) violate("recovery_wrong_size", "p_shm_new", "re-created segment reports %zu bytes, asked for %zu", p_shm_get_size(h2), want);
      uint8_t *a = (uint8_t *)p_shm_get_address(h2);
      for (size_t i = 0; i < want; i++) if (a[i]) violate("fresh_segment_not_zero", "p_shm_new", "re-created segment is not zero-filled");
      if (!HX_API("p_shm_lock", n, false, p_shm_lock(h2, nullptr))) violate("lock_failed", "p_shm_lock", "lock on re-created segment failed");
      if (!HX_API("p_shm_unlock", n, false, p_shm_unlock(h2, nullptr))) violate("unlock_failed", "p_shm_unlock", "unlock failed");
      HX_API_V("p_shm_free", n, false, p_shm_free(h2));
      if (kern::mapping_count(9)) violate("mapping_residue", "p_shm_free", "mappings remain after every handle was freed: %s", kern::mapping_desc(9).c_str());
    }
  });
  wait_all_others();
  auto left = kern::names_bound();
  if (!left.empty()) violate("names_left_behind", "end", "%zu IPC name(s) remain in the system, e.g. %s", left.size(), left[0].c_str());
}

void root() {
  S = new St();
  for (int n = 0; n < MAXN; n++) { S->bound[n] = -1; S->latest[n] = -1; }
  hooks().completion_required = true;
  hooks().on_quiescence = on_quiescence;
  lib_begin();
  pick_names();
  int tier = cfg().tier;
  // learn which system keys each name maps to by observing one throw-away create (the harness never hashes names itself)
  for (int n = 0; n < MAXN; n++) {
    PShm *h = HX_API("p_shm_new", n, false, p_shm_new(user_names[n], 8, P_SHM_ACCESS_READWRITE, nullptr));
    if (!h) violate("new_failed", "serial,name_absent", "p_shm_new on a fresh name returned NULL");
    S->shm_key[n] = kern::last_shm_name(); S->sem_key[n] = kern::last_sem_name();
    HX_API_V("p_shm_free", n, false, p_shm_free(h));
    if (kern::shm_name_bound(S->shm_key[n].c_str()) || kern::sem_name_bound(S->sem_key[n].c_str())) violate("owner_free_left_name", "p_shm_free", "creator freed its handle but the name (or its lock) still exists");
    if (kern::mapping_count(0)) violate("mapping_residue", "p_shm_free", "mapping left after free");
  }
  if (S->shm_key[0] == S->shm_key[1] || S->sem_key[0] == S->sem_key[1]) violate("names_collide", "p_shm_new", "the distinct names '%s' and '%s' map to one system-wide segment or lock", user_names[0], user_names[1]);
  if (gen(24) == 1) {
    concurrent_creators();
    wind_down_and_recover(3, false);
  } else {
    int np = (int)gen_range(1, 3);
    bool with_kill = np >= 2 && gen(3) == 0;
    describe("procs=%d", np);
    if (with_kill) {
      S->kill_victim = 1 + (int)gen((uint32_t)np);
      int kth = 1 + (int)gen(tier ? 60 : 30); bool after = gen(2);
      kern::plan_kill(S->kill_victim, kth, after);
      describe(" kill=proc%d %s ipc#%d", S->kill_victim, after ? "after" : "before", kth);
    }
    for (int p = 0; p < np; p++) {
      int nt = (int)gen_range(1, 2);
      for (int t = 0; t < nt; t++) { int n = (int)gen_range(2, tier ? 20 : 10); describe(" p%d:t%d", p + 1, n); spawn(p + 1, [n]() { script(n); }); }
    }
    wait_all_others();
    kern::plan_kill(-1, 0, false);
    if (with_kill && kern::proc_dead(S->kill_victim)) { sync_if_killed(); probe("shm.kill_happened"); }
    wind_down_and_recover(np, true);
  }
  lib_end();
  delete S; S = nullptr;
}

void configure(Config &c, Rng &) {
  swarm_schedule(c, 400);
  c.step_cap = 300000;
  static const double pe[] = {0, 0, 0.05, 0.3};
  c.p[ST_EINTR] = pe[gen(4)];
}

}  // namespace

SIM_HARNESS(ipc_shm, "C07", root, configure)
