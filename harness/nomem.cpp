// C18 — allocation failure at any point: clean failure, no crash, no leak, no damage to existing objects.
// Each run: one scenario, executed once without faults (counting its allocations N), then once with the k-th
// allocation (k in 1..N) failing, either once or from k onwards.
#include "common.h"
#include "../sim/kernel.h"
#include "../sim/knet.h"
#include <string.h>
#include <stdlib.h>
#include <stdio.h>
#include <unistd.h>
#include <sys/stat.h>
#include <string>
#include <map>
#include <set>
#include <poll.h>
#include <sys/socket.h>
#include <netinet/in.h>
#include "../sim/rawsys.h"

using namespace hx;

namespace {

struct Ctx {
  bool dry = true; int64_t k = 0; bool from = false; int64_t n = 0; bool armed = false; const char *name = "";
  uint32_t par[12] = {0};                       // scenario parameters, drawn once per run: the dry and the faulted pass see the same workload
  std::map<std::string, std::string> ref;       // results of the fault-free pass
  std::set<std::string> ambiguous;
};
Ctx *C;
uint32_t P(int i, uint32_t n) { return n ? C->par[i] % n : 0; }
// a result that was produced although an allocation failed somewhere must be the result of the fault-free pass
void same(const char *tag, int idx, const std::string &val) {
  char key[96]; snprintf(key, sizeof key, "%s#%d", tag, idx);
  // a tag produced twice in the fault-free pass (a key assigned twice in an INI file) has no single reference value: the parser
  // documents that it skips what it cannot store, so an earlier assignment may legitimately show through
  if (C->dry) { if (C->ref.count(key)) C->ambiguous.insert(key); C->ref[key] = val; return; }
  auto it = C->ref.find(key);
  if (it != C->ref.end() && !C->ambiguous.count(key) && it->second != val)
    violate("wrong_result_after_failed_alloc", C->name, "%s: the call succeeded with '%.80s', without the failed allocation it yields '%.80s'", key, val.c_str(), it->second.c_str());
}
std::string g_tmpdir;

void arm() { C->armed = true; alloc::set_fail_plan(C->dry ? 0 : C->k, C->from); }
void disarm() { if (C->dry) C->n = alloc::allocs_since_plan(); alloc::set_fail_plan(-1, false); C->armed = false; }
#define DAMAGE(cond, ...) do { if (!(cond)) violate("existing_object_damaged", C->name, __VA_ARGS__); } while (0)
#define WRONG(cond, ...) do { if (!(cond)) violate("wrong_result_after_failed_alloc", C->name, __VA_ARGS__); } while (0)

void ensure_files() {
  if (!g_tmpdir.empty()) return;
  char exe[512]; ssize_t n = readlink("/proc/self/exe", exe, sizeof exe - 1); exe[n > 0 ? n : 0] = 0;
  std::string d(exe); d = d.substr(0, d.rfind('/')); d = d.substr(0, d.rfind('/')) + "/run";
  mkdir(d.c_str(), 0755);
  char sub[64]; snprintf(sub, sizeof sub, "/nomem-%d", (int)getpid());
  g_tmpdir = d + sub;
  mkdir(g_tmpdir.c_str(), 0755);
  FILE *f = fopen((g_tmpdir + "/a.ini").c_str(), "w");
  fputs("; comment\n[first]\nname = value one\nnum=42\nflag = true\nlist = {1 2 3}\npi = 3.25\n\n[second]\nk=\"quoted # not comment\" ; trailing\nk=again\n[empty]\n[third]\nx=1\n", f);
  fclose(f);
  f = fopen((g_tmpdir + "/b.ini").c_str(), "w");
  for (int sct = 0; sct < 6; sct++) { fprintf(f, "[section_%d]\n", sct); for (int kk = 0; kk <= sct; kk++) fprintf(f, "key%d = value %d of section %d ; comment\nlist%d = {a%d b%d \"c d\"}\n", kk, kk, sct, kk, kk, sct); }
  fclose(f);
  f = fopen((g_tmpdir + "/c.ini").c_str(), "w");
  fputs("stray = before any section\n[s]\n= no key\nnovalue\n[unterminated\nk = v\n[s]\nk2 = \"open quote\nlong = ", f);
  for (int i = 0; i < 700; i++) fputc('a' + i % 26, f);
  fputs("\n[t]\nz = {}\ny = { }\nx = {1}\n", f);
  fclose(f);
  mkdir((g_tmpdir + "/dir").c_str(), 0755);
  for (const char *nm : {"/dir/one", "/dir/two", "/dir/three"}) { FILE *g = fopen((g_tmpdir + nm).c_str(), "w"); fputs("x", g); fclose(g); }
  mkdir((g_tmpdir + "/dir/sub").c_str(), 0755);
}

// ---------------------------------------------------------------- scenarios
void s_list() {
  PList *l = nullptr;
  intptr_t n0 = (intptr_t)P(0, 7);
  for (intptr_t i = 1; i <= n0; i++) l = p_list_append(l, (ppointer)i);
  int nops = 1 + (int)P(1, 4);
  arm();
  PList *l2 = l;
  for (int o = 0; o < nops; o++) {
    if ((C->par[2] >> o) & 1) l2 = p_list_prepend(l2, (ppointer)(intptr_t)(100 + o)); else l2 = p_list_append(l2, (ppointer)(intptr_t)(100 + o));
  }
  if (P(3, 2)) l2 = p_list_reverse(l2), l2 = p_list_reverse(l2);
  disarm();
  // whatever failed, the elements that were in the list are still there, in order
  std::vector<intptr_t> v; for (PList *c = l2; c; c = c->next) v.push_back((intptr_t)c->data);
  intptr_t seen = 0; for (intptr_t x : v) if (x == seen + 1 && seen < n0) seen++;
  DAMAGE(seen == n0, "list lost elements after a failed append/prepend (%zu nodes, had %ld)", v.size(), (long)n0);
  DAMAGE(p_list_length(l2) == v.size() && v.size() >= (size_t)n0 && v.size() <= (size_t)(n0 + nops), "list length inconsistent");
  std::set<intptr_t> uniq(v.begin(), v.end());
  DAMAGE(uniq.size() == v.size(), "list holds one element twice after a failed append/prepend");
  if (l2 && n0) DAMAGE(p_list_last(l2) != nullptr, "p_list_last returned NULL on a non-empty list");
  p_list_free(l2);
}

void s_hash() {
  PHashTable *t = p_hash_table_new();
  intptr_t n0 = (intptr_t)P(0, 9);
  intptr_t stride = P(1, 2) ? 101 : 1;                 // 101 buckets: stride 101 puts every key into one chain
  if (t) for (intptr_t i = 1; i <= n0; i++) p_hash_table_insert(t, (ppointer)(i * stride), (ppointer)(i * 10));
  arm();
  PHashTable *t2 = p_hash_table_new();
  if (t2) { p_hash_table_insert(t2, (ppointer)(intptr_t)7, (ppointer)(intptr_t)70); p_hash_table_insert(t2, (ppointer)(intptr_t)108, (ppointer)(intptr_t)71); }
  intptr_t newkey = (n0 + 1) * stride;
  if (t) {
    p_hash_table_insert(t, (ppointer)newkey, (ppointer)(intptr_t)60);
    if (n0 >= 2) p_hash_table_insert(t, (ppointer)(2 * stride), (ppointer)(intptr_t)21);         // overwrite
    if (n0 >= 3 && P(2, 2)) p_hash_table_remove(t, (ppointer)(3 * stride));
    PList *k = p_hash_table_keys(t); PList *v = p_hash_table_values(t);
    PList *bv = p_hash_table_lookup_by_value(t, (ppointer)(intptr_t)10, nullptr);
    if (bv && n0 >= 1) WRONG(p_list_length(bv) == 1 && bv->data == (ppointer)stride, "lookup_by_value returned a wrong key list");
    p_list_free(k); p_list_free(v); p_list_free(bv);
  }
  disarm();
  if (t) {
    for (intptr_t i = 1; i <= n0; i++) {
      ppointer got = p_hash_table_lookup(t, (ppointer)(i * stride));
      if (i == 3 && n0 >= 3 && P(2, 2)) { DAMAGE(got == (ppointer)(intptr_t)-1, "removed key still present"); continue; }
      if (i == 2) { DAMAGE(got == (ppointer)(intptr_t)21 || got == (ppointer)(intptr_t)20, "overwritten key holds neither the old nor the new value"); continue; }
      DAMAGE(got == (ppointer)(i * 10), "hash table lost key %ld after a failed allocation", (long)i);
    }
    ppointer six = p_hash_table_lookup(t, (ppointer)newkey);
    DAMAGE(six == (ppointer)(intptr_t)60 || six == (ppointer)(intptr_t)-1, "hash table holds a wrong value for a key whose insertion may have failed");
  }
  if (t2) p_hash_table_free(t2);
  if (t) p_hash_table_free(t);
}

int cmp_int(pconstpointer a, pconstpointer b) { return (intptr_t)a < (intptr_t)b ? -1 : (intptr_t)a > (intptr_t)b ? 1 : 0; }
struct Walk { std::vector<intptr_t> keys, vals; };
pboolean walk_cb(ppointer k, ppointer v, ppointer data) { ((Walk *)data)->keys.push_back((intptr_t)k); ((Walk *)data)->vals.push_back((intptr_t)v); return FALSE; }
std::set<intptr_t> g_destroyed_values;
void value_destroyed(ppointer v) { g_destroyed_values.insert((intptr_t)v); }
int cmp_int_data(pconstpointer a, pconstpointer b, ppointer) { return cmp_int(a, b); }
void s_tree(PTreeType ty) {
  // half of the runs: the tree owns its values (destroy notifier); a value whose insertion FAILED stays the caller's
  bool owning = P(3, 2);
  g_destroyed_values.clear();
  PTree *t = owning ? p_tree_new_full(ty, cmp_int_data, nullptr, nullptr, value_destroyed) : p_tree_new(ty, cmp_int);
  uint32_t lcg = C->par[0] * 2654435761u + 12345u;
  auto next = [&lcg](uint32_t n) { lcg = lcg * 1664525u + 1013904223u; return (lcg >> 16) % n; };
  std::map<intptr_t, intptr_t> model;                  // content before the faulted calls
  int n0 = (int)P(1, 11);
  if (t) for (int i = 0; i < n0; i++) { intptr_t k = 1 + next(16); intptr_t v = k * 10 + i; p_tree_insert(t, (ppointer)k, (ppointer)v); model[k] = v; }
  int nops = 1 + (int)P(2, 6);
  std::map<intptr_t, std::pair<int, intptr_t>> last;   // last faulted operation per key: 1 insert (value), 2 remove
  arm();
  PTree *t2 = p_tree_new(ty, cmp_int);
  if (t2) { p_tree_insert(t2, (ppointer)(intptr_t)1, nullptr); p_tree_insert(t2, (ppointer)(intptr_t)2, nullptr); }
  if (t) for (int o = 0; o < nops; o++) {
    intptr_t k = 1 + next(16);
    if (next(3) == 0) { p_tree_remove(t, (ppointer)k); last[k] = {2, 0}; }
    else {
      intptr_t v = 1000 + k * 10 + o; p_tree_insert(t, (ppointer)k, (ppointer)v); last[k] = {1, v};
      if (owning && p_tree_lookup(t, (ppointer)k) != (ppointer)v && g_destroyed_values.count(v))
        violate("existing_object_damaged", C->name, "the value of an insertion that failed was handed to the destroy notifier although the caller still owns it");
    }
  }
  disarm();
  if (t) {
    Walk w; p_tree_foreach(t, walk_cb, &w);
    DAMAGE((int)w.keys.size() == p_tree_get_nnodes(t), "tree node count %d disagrees with traversal %zu", p_tree_get_nnodes(t), w.keys.size());
    for (size_t i = 1; i < w.keys.size(); i++) DAMAGE(w.keys[i - 1] < w.keys[i], "traversal is not strictly ascending after a failed allocation");
    for (intptr_t k = 1; k <= 16; k++) {
      ppointer got = p_tree_lookup(t, (ppointer)k);
      auto l = last.find(k); auto m = model.find(k);
      if (l == last.end()) {
        if (m == model.end()) DAMAGE(got == nullptr, "key %ld appeared from nowhere", (long)k);
        else DAMAGE(got == (ppointer)m->second, "tree lost or changed key %ld that no failed call touched", (long)k);
      } else if (l->second.first == 2) DAMAGE(got == nullptr, "removed key %ld still present", (long)k);
      else DAMAGE(got == (ppointer)l->second.second || got == nullptr || (m != model.end() && got == (ppointer)m->second), "key %ld holds a value nobody stored", (long)k);
    }
    if (owning) for (size_t i = 0; i < w.vals.size(); i++) DAMAGE(!g_destroyed_values.count(w.vals[i]), "a value still stored in the tree was handed to the destroy notifier");
    p_tree_free(t);
  }
  if (t2) p_tree_free(t2);
}
void s_tree_bst() { s_tree(P_TREE_TYPE_BINARY); }
void s_tree_rb() { s_tree(P_TREE_TYPE_RB); }
void s_tree_avl() { s_tree(P_TREE_TYPE_AVL); }

void s_string() {
  arm();
  pchar *a = p_strdup("hello world");
  pchar *b = p_strchomp("  padded \t\n");
  pchar *c = p_strchomp("   ");
  double d = p_strtod("12.5e1");
  pchar *buf = nullptr; char text[] = "a,b,,c";
  pchar *tok = p_strtok(text, ",", &buf);
  disarm();
  WRONG(!a || !strcmp(a, "hello world"), "p_strdup returned a wrong copy");
  WRONG(!b || !strcmp(b, "padded"), "p_strchomp returned '%s'", b);
  WRONG(d == 125.0 || d == 0.0, "p_strtod returned %f", d);      // 0.0 is its failure value
  WRONG(!tok || !strcmp(tok, "a"), "p_strtok returned a wrong token");
  p_free(a); p_free(b); p_free(c);
}

void s_error() {
  PError *base = p_error_new_literal(7, 8, "base message");
  arm();
  PError *e1 = p_error_new_literal(1, 2, "literal");
  PError *e2 = base ? p_error_copy(base) : nullptr;
  PError *e3 = nullptr; p_error_set_error_p(&e3, 3, 4, "via pointer");
  if (base) p_error_set_message(base, "a new and much longer message than before");
  PError *e4 = p_error_new(); if (e4) p_error_set_error(e4, 5, 6, "set");
  disarm();
  if (base) { DAMAGE(p_error_get_code(base) == 7 && p_error_get_native_code(base) == 8, "error codes changed by a failed set_message"); const pchar *m = p_error_get_message(base);
              DAMAGE(!m || !strcmp(m, "base message") || !strcmp(m, "a new and much longer message than before"), "error message is neither the old nor the new text"); }
  if (e2) WRONG(p_error_get_code(e2) == 7, "copy has wrong code");
  p_error_free(e1); p_error_free(e2); p_error_free(e3); p_error_free(e4); p_error_free(base);
}

void s_hashes() {
  // objects that exist before the failing calls: their later answers must be those of the fault-free computation
  static const size_t lens[] = {3, 0, 1, 55, 56, 63, 64, 65, 111, 112, 119, 128, 135, 136, 143, 144, 200};
  size_t len = lens[P(0, sizeof lens / sizeof lens[0])];
  size_t cut = P(1, (uint32_t)len + 1);
  std::string msg(len, 0); for (size_t i = 0; i < len; i++) msg[i] = (char)('a' + (i * 7 + len) % 26);
  if (len == 3) msg = "abc";
  int first = P_CRYPTO_HASH_TYPE_MD5 + (int)P(2, 11);
  PCryptoHash *pre[3]; int pt[3];
  for (int i = 0; i < 3; i++) {
    pt[i] = P_CRYPTO_HASH_TYPE_MD5 + (first - P_CRYPTO_HASH_TYPE_MD5 + i * 4) % 11;
    pre[i] = p_crypto_hash_new((PCryptoHashType)pt[i]);
    if (pre[i]) { p_crypto_hash_update(pre[i], (const puchar *)msg.data(), cut); p_crypto_hash_update(pre[i], (const puchar *)msg.data() + cut, len - cut); }
  }
  arm();
  for (int i = 0; i < 3; i++) if (pre[i]) { pchar *str = p_crypto_hash_get_string(pre[i]); if (str) same("pre_digest", pt[i], str); p_free(str); }
  for (int ty = P_CRYPTO_HASH_TYPE_MD5; ty <= P_CRYPTO_HASH_TYPE_GOST; ty++) {
    PCryptoHash *h = p_crypto_hash_new((PCryptoHashType)ty);
    if (!h) continue;
    p_crypto_hash_update(h, (const puchar *)msg.data(), cut);
    p_crypto_hash_update(h, (const puchar *)msg.data() + cut, len - cut);
    pchar *str = p_crypto_hash_get_string(h);
    if (str) same("digest", ty, str);
    if (ty == P_CRYPTO_HASH_TYPE_MD5 && str && len == 3) WRONG(!strcmp(str, "900150983cd24fb0d6963f7d28e17f72"), "MD5(abc) = %s", str);
    if (str) WRONG((int)strlen(str) == 2 * p_crypto_hash_get_length(h), "digest string has the wrong length");
    p_free(str);
    if (P(3, 2)) { p_crypto_hash_reset(h); p_crypto_hash_update(h, (const puchar *)"abc", 3); pchar *s2 = p_crypto_hash_get_string(h); if (s2) same("digest_after_reset", ty, s2); p_free(s2); }
    p_crypto_hash_free(h);
  }
  disarm();
  for (int i = 0; i < 3; i++) if (pre[i]) {
    pchar *str = p_crypto_hash_get_string(pre[i]);
    char key[64]; snprintf(key, sizeof key, "pre_digest#%d", pt[i]);
    const std::string &want = C->ref[key];
    DAMAGE(str && (C->dry || want == str), "a hash object that existed before a failed p_crypto_hash_get_string now yields %s instead of %s", str ? str : "(null)", want.c_str());
    p_free(str);
    puchar dg[64]; psize dl = sizeof dg; p_crypto_hash_get_digest(pre[i], dg, &dl);
    DAMAGE(dl == (psize)p_crypto_hash_get_length(pre[i]), "digest length changed");
    p_crypto_hash_free(pre[i]);
  }
}

void ini_queries(PIniFile *f, const char *tag) {
  PList *secs = p_ini_file_sections(f);
  int si = 0;
  for (PList *c = secs; c; c = c->next, si++) {
    const char *sec = (const char *)c->data;
    PList *keys = p_ini_file_keys(f, sec);
    int ki = 0;
    for (PList *kc = keys; kc; kc = kc->next, ki++) {
      const char *key = (const char *)kc->data;
      WRONG(p_ini_file_is_key_exists(f, sec, key), "a listed key does not exist");
      pchar *v = p_ini_file_parameter_string(f, sec, key, nullptr);
      if (v) { std::string t = std::string(tag) + ":" + sec + ":" + key; same(t.c_str(), 0, v); }
      p_free(v);
      if (si < 2 && ki < 2) {
        PList *lst = p_ini_file_parameter_list(f, sec, key);
        for (PList *lc = lst; lc; lc = lc->next) p_free(lc->data);
        p_list_free(lst);
        (void)p_ini_file_parameter_int(f, sec, key, -1); (void)p_ini_file_parameter_double(f, sec, key, 0.5); (void)p_ini_file_parameter_boolean(f, sec, key, FALSE);
      }
    }
    for (PList *kc = keys; kc; kc = kc->next) p_free(kc->data);
    p_list_free(keys);
  }
  for (PList *c = secs; c; c = c->next) p_free(c->data);
  p_list_free(secs);
}
void s_ini() {
  ensure_files();
  static const char *files[] = {"/a.ini", "/b.ini", "/c.ini"};
  int fi = (int)P(0, 3);
  std::string path = g_tmpdir + files[fi];
  PIniFile *pre = p_ini_file_new(path.c_str());
  if (pre && !p_ini_file_parse(pre, nullptr)) { p_ini_file_free(pre); pre = nullptr; }
  arm();
  PIniFile *f = p_ini_file_new(path.c_str());
  if (f) {
    PError *e = nullptr;
    pboolean ok = p_ini_file_parse(f, &e);
    if (e) p_error_free(e);
    if (ok) {
      ini_queries(f, files[fi]);
      if (fi == 0) {
        pchar *v = p_ini_file_parameter_string(f, "first", "name", "dflt");
        WRONG(!v || !strcmp(v, "value one") || !strcmp(v, "dflt"), "parameter_string returned '%s'", v);
        p_free(v);
        pint num = p_ini_file_parameter_int(f, "first", "num", -1);
        WRONG(num == 42 || num == -1, "parameter_int returned %d", num);
      }
    }
    p_ini_file_free(f);
  }
  if (pre) ini_queries(pre, "pre");     // queries on an object that existed before
  disarm();
  if (pre) {
    if (fi == 0) {
      DAMAGE(p_ini_file_is_key_exists(pre, "first", "num") && p_ini_file_is_key_exists(pre, "third", "x"), "parsed INI object lost keys");
      DAMAGE(p_ini_file_parameter_int(pre, "first", "num", -1) == 42, "parsed INI object returns a wrong value");
    }
    if (fi == 1) {
      DAMAGE(p_ini_file_is_key_exists(pre, "section_5", "key5") && p_ini_file_is_key_exists(pre, "section_0", "list0"), "parsed INI object lost keys");
      pchar *v = p_ini_file_parameter_string(pre, "section_3", "key2", nullptr);
      DAMAGE(v && !strcmp(v, "value 2 of section 3"), "parsed INI object returns '%s'", v ? v : "(null)");
      p_free(v);
    }
    p_ini_file_free(pre);
  }
}

void s_dir() {
  ensure_files();
  std::string path = g_tmpdir + "/dir";
  arm();
  PError *e = nullptr;
  PDir *d = p_dir_new(path.c_str(), &e);
  if (e) { p_error_free(e); e = nullptr; }
  if (d) {
    int n = 0;
    for (int i = 0; i < 10; i++) {
      PDirEntry *en = p_dir_get_next_entry(d, &e);
      if (e) { p_error_free(e); e = nullptr; }
      if (!en) break;
      n++;
      p_dir_entry_free(en);
    }
    pchar *p = p_dir_get_path(d);
    WRONG(!p || !strcmp(p, path.c_str()), "p_dir_get_path returned '%s'", p);
    p_free(p);
    p_dir_rewind(d, &e); if (e) { p_error_free(e); e = nullptr; }
    PDirEntry *en = p_dir_get_next_entry(d, &e); if (e) { p_error_free(e); e = nullptr; }
    if (en) p_dir_entry_free(en);
    p_dir_free(d);
  }
  disarm();
  if (kern::passthrough_open()) violate("resource_left_after_failed_alloc", C->name, "directory stream left open: %s", kern::passthrough_desc().c_str());
}

void s_sockaddr() {
  PSocketAddress *pre = p_socket_address_new("172.16.254.1", 4242);
  arm();
  if (pre) { pchar *t = p_socket_address_get_address(pre); WRONG(!t || !strcmp(t, "172.16.254.1"), "address text is %s", t); p_free(t); }
  PSocketAddress *a = p_socket_address_new("192.168.1.7", 8080);
  PSocketAddress *b = P(0, 2) ? p_socket_address_new_any(P_SOCKET_FAMILY_INET6, 1) : p_socket_address_new("2001:db8::17", 1);     // an IPv6 literal goes through the resolver
  PSocketAddress *c = P(1, 2) ? p_socket_address_new_loopback(P_SOCKET_FAMILY_INET, 2) : p_socket_address_new("::1", 2);
  if (b && !P(0, 2)) { pchar *t6 = p_socket_address_get_address(b); if (t6) same("ipv6_text", 0, t6); p_free(t6); }
  pchar *s = a ? p_socket_address_get_address(a) : nullptr;
  WRONG(!s || !strcmp(s, "192.168.1.7"), "address text is '%s'", s);
  struct sockaddr_storage ss; memset(&ss, 0, sizeof ss);
  PSocketAddress *d = nullptr;
  if (a && p_socket_address_to_native(a, &ss, sizeof ss)) d = p_socket_address_new_from_native(&ss, sizeof ss);
  if (d) WRONG(p_socket_address_get_port(d) == 8080, "round trip changed the port");
  disarm();
  if (pre) { pchar *t = p_socket_address_get_address(pre); DAMAGE(t && !strcmp(t, "172.16.254.1") && p_socket_address_get_port(pre) == 4242, "socket address changed by a failed call"); p_free(t); p_socket_address_free(pre); }
  p_free(s);
  p_socket_address_free(a); p_socket_address_free(b); p_socket_address_free(c); p_socket_address_free(d);
}

void s_socket_tcp(PSocketFamily fam) {
  arm();
  PError *e = nullptr;
  PSocket *srv = p_socket_new(fam, P_SOCKET_TYPE_STREAM, P_SOCKET_PROTOCOL_TCP, &e);
  if (e) { p_error_free(e); e = nullptr; }
  PSocket *cli = nullptr, *acc = nullptr;
  if (srv) {
    PSocketAddress *a = p_socket_address_new_loopback(fam, 0);
    if (a && p_socket_bind(srv, a, TRUE, &e) && p_socket_listen(srv, &e)) {
      PSocketAddress *la = p_socket_get_local_address(srv, &e);
      if (la) {
        cli = p_socket_new(fam, P_SOCKET_TYPE_STREAM, P_SOCKET_PROTOCOL_TCP, &e);
        if (cli) {
          p_socket_set_timeout(cli, 1000);
          if (p_socket_connect(cli, la, &e)) {
            p_socket_set_timeout(srv, 1000);
            acc = p_socket_accept(srv, &e);
            if (acc) {
              PSocketAddress *ra = p_socket_get_remote_address(acc, &e);
              if (ra) p_socket_address_free(ra);
              char b[8];
              if (p_socket_send(cli, "ping", 4, &e) == 4) { p_socket_set_timeout(acc, 1000); PSocketAddress *from = nullptr; pssize r = p_socket_receive_from(acc, &from, b, sizeof b, &e); WRONG(r == 4 || r < 0, "received %zd bytes", (ssize_t)r); if (r == 4) WRONG(!memcmp(b, "ping", 4), "received wrong bytes"); if (from) p_socket_address_free(from); }
            }
          }
        }
        p_socket_address_free(la);
      }
    }
    if (a) p_socket_address_free(a);
    if (e) { p_error_free(e); e = nullptr; }
  }
  disarm();
  if (e) p_error_free(e);
  if (acc) p_socket_free(acc);
  if (cli) p_socket_free(cli);
  if (srv) p_socket_free(srv);
}
void s_socket_udp(PSocketFamily fam) {
  arm();
  PError *e = nullptr;
  PSocket *a = p_socket_new(fam, P_SOCKET_TYPE_DATAGRAM, P_SOCKET_PROTOCOL_UDP, &e);
  if (e) { p_error_free(e); e = nullptr; }
  PSocket *b = p_socket_new(fam, P_SOCKET_TYPE_DATAGRAM, P_SOCKET_PROTOCOL_UDP, &e);
  if (e) { p_error_free(e); e = nullptr; }
  if (a && b) {
    PSocketAddress *any = p_socket_address_new_loopback(fam, 0);
    if (any && p_socket_bind(a, any, FALSE, &e) && p_socket_bind(b, any, FALSE, &e)) {
      PSocketAddress *la = p_socket_get_local_address(a, &e), *lb = p_socket_get_local_address(b, &e);
      if (la && lb) {
        p_socket_set_timeout(a, 1000);
        if (p_socket_send_to(b, la, "datagram", 8, &e) == 8) {
          char buf[16]; PSocketAddress *from = nullptr;
          pssize r = p_socket_receive_from(a, &from, buf, sizeof buf, &e);
          WRONG(r == 8 || r < 0, "received %zd bytes of an 8 byte datagram", (ssize_t)r);
          if (r == 8) WRONG(!memcmp(buf, "datagram", 8), "received wrong bytes");
          // the source address is an allocation of its own: it may be missing, it may not be wrong
          if (from) { WRONG(p_socket_address_get_port(from) == p_socket_address_get_port(lb), "receive_from reports a wrong source port"); p_socket_address_free(from); }
        }
        if (p_socket_connect(b, la, &e)) { PSocketAddress *ra = p_socket_get_remote_address(b, &e); if (ra) { WRONG(p_socket_address_get_port(ra) == p_socket_address_get_port(la), "remote address has a wrong port"); p_socket_address_free(ra); } }
      }
      if (la) p_socket_address_free(la);
      if (lb) p_socket_address_free(lb);
    }
    if (any) p_socket_address_free(any);
    if (e) { p_error_free(e); e = nullptr; }
  }
  disarm();
  if (e) p_error_free(e);
  if (a) p_socket_free(a);
  if (b) p_socket_free(b);
}
void s_socket_from_fd(PSocketFamily fam) {
  // a descriptor the caller owns: a failed p_socket_new_from_fd leaves it open and usable, a successful one takes it over
  int af = fam == P_SOCKET_FAMILY_INET ? AF_INET : AF_INET6;
  int fd; { kern::RawScope raw; fd = simk_socket(af, P(2, 2) ? SOCK_STREAM : SOCK_DGRAM, 0); }
  if (fd < 0) infra_error("raw socket() failed");
  uint64_t closes0 = kern::closes_total();
  arm();
  PError *e = nullptr;
  PSocket *sk = p_socket_new_from_fd(fd, &e);
  if (e) { p_error_free(e); e = nullptr; }
  if (sk) { WRONG(p_socket_get_fd(sk) == fd, "socket made from descriptor %d reports descriptor %d", fd, p_socket_get_fd(sk)); WRONG(p_socket_get_family(sk) == fam, "socket made from a descriptor reports a wrong family"); }
  disarm();
  if (!sk) {
    if (kern::closes_total() != closes0) violate("existing_object_damaged", C->name, "a failed p_socket_new_from_fd closed the caller's descriptor");
    kern::RawScope raw; simk_close(fd);
  } else p_socket_free(sk);
  if (kern::bad_closes()) violate("existing_object_damaged", C->name, "close() hit a descriptor that was not open");
}
void s_socket() {
  kern::set_net_defaults(65536, 65536, false);
  PSocketFamily fam = P(1, 2) ? P_SOCKET_FAMILY_INET6 : P_SOCKET_FAMILY_INET;
  switch (P(0, 3)) { case 0: s_socket_tcp(fam); break; case 1: s_socket_udp(fam); break; default: s_socket_from_fd(fam); }
  if (kern::fd_count(0)) violate("resource_left_after_failed_alloc", C->name, "descriptor left open after a failed allocation: %s", kern::fd_desc(0).c_str());
}

void s_ipc() {
  PShmBuffer *preb = p_shm_buffer_new("vp-nomem-prebuf", 16, nullptr);
  if (preb) { char x[3] = {7, 8, 9}; p_shm_buffer_write(preb, x, 3, nullptr); }
  PSemaphore *pres = p_semaphore_new("vp-nomem-presem", 2, P_SEM_ACCESS_CREATE, nullptr);
  arm();
  PError *e = nullptr;
  if (preb) { PShmBuffer *again = p_shm_buffer_new("vp-nomem-prebuf", 16, &e); if (e) { p_error_free(e); e = nullptr; } if (again) p_shm_buffer_free(again); }
  if (pres) { PSemaphore *again = p_semaphore_new("vp-nomem-presem", 9, P_SEM_ACCESS_OPEN, &e); if (e) { p_error_free(e); e = nullptr; } if (again) p_semaphore_free(again); }
  PSemaphore *s = p_semaphore_new("vp-nomem-sem", 1, P_SEM_ACCESS_CREATE, &e);
  if (e) { p_error_free(e); e = nullptr; }
  PShm *m = p_shm_new("vp-nomem-shm", 64, P_SHM_ACCESS_READWRITE, &e);
  if (e) { p_error_free(e); e = nullptr; }
  PShmBuffer *b = p_shm_buffer_new("vp-nomem-buf", 32, &e);
  if (e) { p_error_free(e); e = nullptr; }
  if (b) { char x[4] = {1, 2, 3, 4}; p_shm_buffer_write(b, x, 4, nullptr); }
  disarm();
  if (preb) { DAMAGE(p_shm_buffer_get_used_space(preb, nullptr) == 3, "existing buffer lost its content after a failed open of the same name"); char y[3] = {0}; DAMAGE(p_shm_buffer_read(preb, y, 3, nullptr) == 3 && y[0] == 7 && y[2] == 9, "existing buffer returns wrong bytes");
              p_shm_buffer_take_ownership(preb); p_shm_buffer_free(preb); }
  if (pres) { DAMAGE(p_semaphore_acquire(pres, nullptr) && p_semaphore_acquire(pres, nullptr), "existing semaphore lost its units after a failed open of the same name"); p_semaphore_take_ownership(pres); p_semaphore_free(pres); }
  if (s) { p_semaphore_take_ownership(s); p_semaphore_free(s); }
  if (m) { p_shm_take_ownership(m); p_shm_free(m); }
  if (b) { p_shm_buffer_take_ownership(b); p_shm_buffer_free(b); }
  auto left = kern::names_bound();
  if (!left.empty()) violate("resource_left_after_failed_alloc", C->name, "IPC name left behind after a failed allocation: %s", left[0].c_str());
  if (kern::fd_count(0) || kern::mapping_count(0)) violate("resource_left_after_failed_alloc", C->name, "descriptor or mapping left: %s %s", kern::fd_desc(0).c_str(), kern::mapping_desc(0).c_str());
}

void s_locks() {
  arm();
  PMutex *m = p_mutex_new();
  PCondVariable *c = p_cond_variable_new();
  PRWLock *r = p_rwlock_new();
  PSpinLock *s = p_spinlock_new();
  if (m) { p_mutex_lock(m); p_mutex_unlock(m); }
  if (r) { p_rwlock_reader_lock(r); p_rwlock_reader_unlock(r); p_rwlock_writer_lock(r); p_rwlock_writer_unlock(r); }
  if (s) { p_spinlock_lock(s); p_spinlock_unlock(s); }
  disarm();
  p_mutex_free(m); p_cond_variable_free(c); p_rwlock_free(r); p_spinlock_free(s);
  if (shim::live_count(shim::K_MUTEX) > 0 + (int)(strstr(g_variant, ".sim.") != nullptr) || shim::live_count(shim::K_COND) || shim::live_count(shim::K_RWLOCK))
    violate("resource_left_after_failed_alloc", C->name, "a native lock object was initialised but never destroyed (%d mutex, %d cond, %d rwlock)", shim::live_count(shim::K_MUTEX), shim::live_count(shim::K_COND), shim::live_count(shim::K_RWLOCK));
}

int g_tls_dtor_calls = 0;
void tls_dtor(ppointer) { g_tls_dtor_calls++; }
struct ThrArg { PUThreadKey *k, *kd; };
ppointer thread_fn(ppointer arg) {
  ThrArg *a = (ThrArg *)arg;
  if (a->k) { p_uthread_set_local(a->k, (ppointer)(intptr_t)5); (void)p_uthread_get_local(a->k); p_uthread_replace_local(a->k, nullptr); }
  if (a->kd) { p_uthread_set_local(a->kd, (ppointer)(intptr_t)6); p_uthread_replace_local(a->kd, (ppointer)(intptr_t)7); }
  (void)p_uthread_current();
  return nullptr;
}
void s_threads() {
  int nthr = 1 + (int)P(0, 3);
  bool full = P(1, 2), foreign = P(2, 2);
  g_tls_dtor_calls = 0;
  int native_keys0 = shim::live_count(shim::K_KEY);
  if (P(3, 4) == 0) shim::fail_setname_kth = 1 + (int)P(4, 3);      // the native call that names the thread is refused
  arm();
  ThrArg a; a.k = p_uthread_local_new(nullptr); a.kd = p_uthread_local_new(tls_dtor);
  PUThread *t[3] = {nullptr, nullptr, nullptr};
  for (int i = 0; i < nthr; i++)
    t[i] = full ? p_uthread_create_full(thread_fn, &a, i != 1, P_UTHREAD_PRIORITY_NORMAL, 64 * 1024, "full") : p_uthread_create(thread_fn, &a, i != 1, "a-rather-long-thread-name");
  Task *ft = nullptr;
  if (foreign) { ft = spawn(0, [&a]() { PUThread *me = p_uthread_current(); if (me) { p_uthread_ref(me); p_uthread_unref(me); } if (a.k) p_uthread_set_local(a.k, (ppointer)(intptr_t)9); }); ft->is_thread = true; }
  for (int i = 0; i < nthr; i++) if (t[i]) { if (i != 1) p_uthread_join(t[i]); p_uthread_unref(t[i]); }
  if (a.k) { p_uthread_set_local(a.k, (ppointer)(intptr_t)1); WRONG(p_uthread_get_local(a.k) == (ppointer)(intptr_t)1 || p_uthread_get_local(a.k) == nullptr, "TLS returned a wrong value"); p_uthread_set_local(a.k, nullptr); }
  wait_all_others();          // detached and foreign threads finish while the plan is still armed: their exit paths allocate nothing that may leak
  disarm();
  shim::fail_setname_kth = 0;
  // each key object owns at most one native key (the library leaves it alive on purpose when the object is freed); more than
  // that is a native key created by a call that failed and never given back
  int made = shim::live_count(shim::K_KEY) - native_keys0, objs = (a.k ? 1 : 0) + (a.kd ? 1 : 0);
  if (made > objs) violate("resource_left_after_failed_alloc", C->name, "%d native TLS key(s) live for %d key object(s): a key created inside a failed call was not deleted", made, objs);
  p_uthread_local_free(a.k); p_uthread_local_free(a.kd);
}

void s_loader() {
  arm();
  static const char *cands[] = {"/lib/x86_64-linux-gnu/libm.so.6", "/usr/lib/x86_64-linux-gnu/libm.so.6", "/lib64/libm.so.6", "/usr/lib64/libm.so.6"};
  const char *lib = nullptr;
  for (const char *c : cands) if (!lib && access(c, R_OK) == 0) lib = c;
  if (!lib) infra_error("no libm.so.6 found for the library loader scenario");
  ensure_files();
  std::string probe_mod = g_tmpdir.substr(0, g_tmpdir.rfind('/')) + "/libvpprobe.so";      // a module nothing else in the process has loaded
  if (P(0, 2)) lib = probe_mod.c_str();
  PLibraryLoader *l = p_library_loader_new(lib);
  if (l) probe("nomem.loader_loaded");
  if (l) { (void)p_library_loader_get_symbol(l, "cos"); (void)p_library_loader_get_symbol(l, "no_such_symbol_here"); pchar *err = p_library_loader_get_last_error(l); p_free(err); }
  PLibraryLoader *bad = p_library_loader_new("/nonexistent/lib.so");
  pchar *err2 = p_library_loader_get_last_error(nullptr); p_free(err2);
  disarm();
  p_library_loader_free(l); p_library_loader_free(bad);
  if (kern::passthrough_open()) violate("resource_left_after_failed_alloc", C->name, "library handle left open: %s", kern::passthrough_desc().c_str());
}

void s_profiler() {
  arm();
  PTimeProfiler *p = p_time_profiler_new();
  if (p) { p_time_profiler_reset(p); (void)p_time_profiler_elapsed_usecs(p); }
  disarm();
  p_time_profiler_free(p);
}

struct Scen { const char *name; void (*fn)(); };
const Scen scenarios[] = {
  {"list", s_list}, {"hash_table", s_hash}, {"tree_bst", s_tree_bst}, {"tree_rb", s_tree_rb}, {"tree_avl", s_tree_avl}, {"string", s_string}, {"error", s_error},
  {"crypto_hashes", s_hashes}, {"ini_file", s_ini}, {"dir", s_dir}, {"socket_address", s_sockaddr}, {"socket", s_socket}, {"ipc", s_ipc}, {"locks", s_locks},
  {"threads_tls", s_threads}, {"library_loader", s_loader}, {"time_profiler", s_profiler},
};
constexpr int NSCEN = sizeof scenarios / sizeof scenarios[0];

void run_scenario(const Scen &sc) {
  alloc::Mark m = alloc::mark();
  { ApiScope as(sc.name, 0, false); sc.fn(); }
  wait_all_others();
  std::string d;
  size_t left = alloc::outstanding_since(m, &d);
  if (kern::passthrough_open()) violate("resource_left_after_failed_alloc", sc.name, "left open after everything was freed: %s", kern::passthrough_desc().c_str());
  if (kern::fd_count(0) || kern::mapping_count(0)) violate("resource_left_after_failed_alloc", sc.name, "descriptor or mapping left: %s %s", kern::fd_desc(0).c_str(), kern::mapping_desc(0).c_str());
  if (left) violate(C->dry ? "leak_without_failure" : "leak_after_failed_alloc", sc.name, "%zu block(s) allocated by the scenario are still allocated after everything was freed%s: %s", left,
                    C->dry ? " (no allocation failed)" : "", d.c_str());
}

void root() {
  Ctx ctx; C = &ctx;
  hooks().completion_required = true;
  lib_begin();
  (void)p_uthread_current();        // library-global lazily created state (internal TLS key) exists before the accounting starts
  int si = (int)gen(NSCEN);
  const Scen &sc = scenarios[si];
  ctx.name = sc.name;
  for (int i = 0; i < 6; i++) ctx.par[i] = gen(1u << 16);
  ctx.dry = true;
  run_scenario(sc);
  if (ctx.n <= 0) { probe("nomem.scenario_without_allocation"); }
  else {
    ctx.dry = false;
    ctx.k = 1 + (int64_t)gen((uint32_t)ctx.n);
    ctx.from = gen(2);
    describe("scenario=%s par=%u,%u,%u,%u allocations=%lld fail=%lld%s", sc.name, ctx.par[0], ctx.par[1], ctx.par[2], ctx.par[3], (long long)ctx.n, (long long)ctx.k, ctx.from ? "+" : "");
    order_ev(si, (int)ctx.k, ctx.from);
    for (int i = 0; i < 4; i++) order_ev(100 + i, (int)ctx.par[i], 0);
    uint64_t f0 = alloc::failed_count();
    run_scenario(sc);
    if (alloc::failed_count() > f0) { probe("nomem.allocation_failed"); if (ctx.k >= 2) probe("alloc.failed_second_or_later_in_scenario"); }
    char pn[64]; snprintf(pn, sizeof pn, "nomem.%s", sc.name); probe(pn);
  }
  lib_end();
  C = nullptr;
}

void configure(Config &c, Rng &) {
  c.policy = POL_RANDOM; c.switch_p = gen(2) ? 0.0 : 0.3;
  c.step_cap = 300000;
}

}  // namespace

SIM_HARNESS(nomem, "C18", root, configure)
