// C18 — allocation failure at any point: clean failure, no crash, no leak, no damage to existing objects.
// Each run: one scenario, executed once without faults (counting its allocations N), then once with the k-th
// allocation (k in 1..N) failing, either once or from k onwards.
#include "common.h"
#include "../sim/kernel.h"
#include "../sim/knet.h"
#include <string.h>
#include <stdlib.h>
#include <stdio.h>
#include <unistd.h>
#include <sys/stat.h>
#include <string>

using namespace hx;

namespace {

struct Ctx { bool dry = true; int64_t k = 0; bool from = false; int64_t n = 0; bool armed = false; const char *name = ""; };
Ctx *C;
std::string g_tmpdir;

void arm() { C->armed = true; alloc::set_fail_plan(C->dry ? 0 : C->k, C->from); }
void disarm() { if (C->dry) C->n = alloc::allocs_since_plan(); alloc::set_fail_plan(-1, false); C->armed = false; }
#define DAMAGE(cond, ...) do { if (!(cond)) violate("existing_object_damaged", C->name, __VA_ARGS__); } while (0)
#define WRONG(cond, ...) do { if (!(cond)) violate("wrong_result_after_failed_alloc", C->name, __VA_ARGS__); } while (0)

void ensure_files() {
  if (!g_tmpdir.empty()) return;
  char exe[512]; ssize_t n = readlink("/proc/self/exe", exe, sizeof exe - 1); exe[n > 0 ? n : 0] = 0;
  std::string d(exe); d = d.substr(0, d.rfind('/')); d = d.substr(0, d.rfind('/')) + "/run";
  mkdir(d.c_str(), 0755);
  char sub[64]; snprintf(sub, sizeof sub, "/nomem-%d", (int)getpid());
  g_tmpdir = d + sub;
  mkdir(g_tmpdir.c_str(), 0755);
  FILE *f = fopen((g_tmpdir + "/a.ini").c_str(), "w");
  fputs("; comment\n[first]\nname = value one\nnum=42\nflag = true\nlist = {1 2 3}\npi = 3.25\n\n[second]\nk=\"quoted # not comment\" ; trailing\nk=again\n[empty]\n[third]\nx=1\n", f);
  fclose(f);
  mkdir((g_tmpdir + "/dir").c_str(), 0755);
  for (const char *nm : {"/dir/one", "/dir/two", "/dir/three"}) { FILE *g = fopen((g_tmpdir + nm).c_str(), "w"); fputs("x", g); fclose(g); }
  mkdir((g_tmpdir + "/dir/sub").c_str(), 0755);
}

// ---------------------------------------------------------------- scenarios
void s_list() {
  PList *l = nullptr;
  for (intptr_t i = 1; i <= 3; i++) l = p_list_append(l, (ppointer)i);
  arm();
  PList *l2 = p_list_append(l, (ppointer)(intptr_t)4);
  l2 = p_list_prepend(l2, (ppointer)(intptr_t)0);
  disarm();
  // whatever failed, the elements that were in the list are still there, in order
  std::vector<intptr_t> v; for (PList *c = l2; c; c = c->next) v.push_back((intptr_t)c->data);
  size_t i123 = 0; for (intptr_t x : v) if (x == (intptr_t)(i123 + 1) && i123 < 3) i123++;
  DAMAGE(i123 == 3, "list lost elements after a failed append/prepend (%zu nodes)", v.size());
  DAMAGE(p_list_length(l2) == v.size() && v.size() >= 3 && v.size() <= 5, "list length inconsistent");
  p_list_free(l2);
}

void s_hash() {
  PHashTable *t = p_hash_table_new();
  if (t) for (intptr_t i = 1; i <= 5; i++) p_hash_table_insert(t, (ppointer)i, (ppointer)(i * 10));
  arm();
  PHashTable *t2 = p_hash_table_new();
  if (t2) { p_hash_table_insert(t2, (ppointer)(intptr_t)7, (ppointer)(intptr_t)70); }
  if (t) {
    p_hash_table_insert(t, (ppointer)(intptr_t)6, (ppointer)(intptr_t)60);
    PList *k = p_hash_table_keys(t); PList *v = p_hash_table_values(t);
    PList *bv = p_hash_table_lookup_by_value(t, (ppointer)(intptr_t)30, nullptr);
    p_list_free(k); p_list_free(v); p_list_free(bv);
  }
  disarm();
  if (t) {
    for (intptr_t i = 1; i <= 5; i++) DAMAGE(p_hash_table_lookup(t, (ppointer)i) == (ppointer)(i * 10), "hash table lost key %ld after a failed allocation", (long)i);
    ppointer six = p_hash_table_lookup(t, (ppointer)(intptr_t)6);
    DAMAGE(six == (ppointer)(intptr_t)60 || six == (ppointer)(intptr_t)-1, "hash table holds a wrong value for a key whose insertion may have failed");
  }
  if (t2) p_hash_table_free(t2);
  if (t) p_hash_table_free(t);
}

int cmp_int(pconstpointer a, pconstpointer b) { return (intptr_t)a < (intptr_t)b ? -1 : (intptr_t)a > (intptr_t)b ? 1 : 0; }
pboolean count_cb(ppointer, ppointer, ppointer data) { (*(int *)data)++; return FALSE; }
void s_tree(PTreeType ty) {
  PTree *t = p_tree_new(ty, cmp_int);
  if (t) for (intptr_t i : {5, 2, 8, 1, 3}) p_tree_insert(t, (ppointer)i, (ppointer)(i * 10));
  int before = t ? p_tree_get_nnodes(t) : 0;
  arm();
  PTree *t2 = p_tree_new(ty, cmp_int);
  if (t2) { p_tree_insert(t2, (ppointer)(intptr_t)1, nullptr); p_tree_insert(t2, (ppointer)(intptr_t)2, nullptr); }
  if (t) { p_tree_insert(t, (ppointer)(intptr_t)7, (ppointer)(intptr_t)70); p_tree_insert(t, (ppointer)(intptr_t)4, (ppointer)(intptr_t)40); p_tree_remove(t, (ppointer)(intptr_t)2); }
  disarm();
  if (t) {
    int n = 0; p_tree_foreach(t, count_cb, &n);
    DAMAGE(n == p_tree_get_nnodes(t), "tree node count %d disagrees with traversal %d", p_tree_get_nnodes(t), n);
    DAMAGE(n >= before - 1 && n <= before + 1, "tree has %d nodes after two inserts (each may fail) and one removal of %d", n, before);
    for (intptr_t i : {5, 8, 1, 3}) DAMAGE(p_tree_lookup(t, (ppointer)i) == (ppointer)(i * 10), "tree lost key %ld", (long)i);
    p_tree_free(t);
  }
  if (t2) p_tree_free(t2);
}
void s_tree_bst() { s_tree(P_TREE_TYPE_BINARY); }
void s_tree_rb() { s_tree(P_TREE_TYPE_RB); }
void s_tree_avl() { s_tree(P_TREE_TYPE_AVL); }

void s_string() {
  arm();
  pchar *a = p_strdup("hello world");
  pchar *b = p_strchomp("  padded \t\n");
  pchar *c = p_strchomp("   ");
  double d = p_strtod("12.5e1");
  pchar *buf = nullptr; char text[] = "a,b,,c";
  pchar *tok = p_strtok(text, ",", &buf);
  disarm();
  WRONG(!a || !strcmp(a, "hello world"), "p_strdup returned a wrong copy");
  WRONG(!b || !strcmp(b, "padded"), "p_strchomp returned '%s'", b);
  WRONG(d == 125.0 || d == 0.0, "p_strtod returned %f", d);      // 0.0 is its failure value
  WRONG(!tok || !strcmp(tok, "a"), "p_strtok returned a wrong token");
  p_free(a); p_free(b); p_free(c);
}

void s_error() {
  PError *base = p_error_new_literal(7, 8, "base message");
  arm();
  PError *e1 = p_error_new_literal(1, 2, "literal");
  PError *e2 = base ? p_error_copy(base) : nullptr;
  PError *e3 = nullptr; p_error_set_error_p(&e3, 3, 4, "via pointer");
  if (base) p_error_set_message(base, "a new and much longer message than before");
  PError *e4 = p_error_new(); if (e4) p_error_set_error(e4, 5, 6, "set");
  disarm();
  if (base) { DAMAGE(p_error_get_code(base) == 7 && p_error_get_native_code(base) == 8, "error codes changed by a failed set_message"); const pchar *m = p_error_get_message(base);
              DAMAGE(!m || !strcmp(m, "base message") || !strcmp(m, "a new and much longer message than before"), "error message is neither the old nor the new text"); }
  if (e2) WRONG(p_error_get_code(e2) == 7, "copy has wrong code");
  p_error_free(e1); p_error_free(e2); p_error_free(e3); p_error_free(e4); p_error_free(base);
}

void s_hashes() {
  // objects that exist before the failing calls: their later answers must be those of the fault-free computation
  PCryptoHash *pre[3]; static const PCryptoHashType pt[3] = {P_CRYPTO_HASH_TYPE_MD5, P_CRYPTO_HASH_TYPE_SHA1, P_CRYPTO_HASH_TYPE_SHA2_256};
  static const char *want[3] = {"900150983cd24fb0d6963f7d28e17f72", "a9993e364706816aba3e25717850c26c9cd0d89d", "ba7816bf8f01cfea414140de5dae2223b00361a396177a9cb410ff61f20015ad"};
  for (int i = 0; i < 3; i++) { pre[i] = p_crypto_hash_new(pt[i]); if (pre[i]) p_crypto_hash_update(pre[i], (const puchar *)"abc", 3); }
  arm();
  for (int i = 0; i < 3; i++) if (pre[i]) { pchar *s = p_crypto_hash_get_string(pre[i]); WRONG(!s || !strcmp(s, want[i]), "digest string is %s", s); p_free(s); }
  for (int ty = P_CRYPTO_HASH_TYPE_MD5; ty <= P_CRYPTO_HASH_TYPE_GOST; ty++) {
    PCryptoHash *h = p_crypto_hash_new((PCryptoHashType)ty);
    if (!h) continue;
    p_crypto_hash_update(h, (const puchar *)"abc", 3);
    pchar *s = p_crypto_hash_get_string(h);
    if (ty == P_CRYPTO_HASH_TYPE_MD5 && s) WRONG(!strcmp(s, "900150983cd24fb0d6963f7d28e17f72"), "MD5(abc) = %s", s);
    p_free(s);
    p_crypto_hash_free(h);
  }
  disarm();
  for (int i = 0; i < 3; i++) if (pre[i]) {
    pchar *s = p_crypto_hash_get_string(pre[i]);
    DAMAGE(s && !strcmp(s, want[i]), "a hash object that existed before a failed p_crypto_hash_get_string now yields %s instead of %s", s ? s : "(null)", want[i]);
    p_free(s);
    puchar dg[64]; psize dl = sizeof dg; p_crypto_hash_get_digest(pre[i], dg, &dl);
    DAMAGE(dl == (psize)p_crypto_hash_get_length(pre[i]), "digest length changed");
    p_crypto_hash_free(pre[i]);
  }
}

void s_ini() {
  ensure_files();
  std::string path = g_tmpdir + "/a.ini";
  PIniFile *pre = p_ini_file_new(path.c_str());
  if (pre && !p_ini_file_parse(pre, nullptr)) { p_ini_file_free(pre); pre = nullptr; }
  arm();
  PIniFile *f = p_ini_file_new(path.c_str());
  if (f) {
    PError *e = nullptr;
    pboolean ok = p_ini_file_parse(f, &e);
    if (e) p_error_free(e);
    if (ok) {
      PList *secs = p_ini_file_sections(f);
      for (PList *c = secs; c; c = c->next) p_free(c->data);
      p_list_free(secs);
      PList *keys = p_ini_file_keys(f, "first");
      for (PList *c = keys; c; c = c->next) p_free(c->data);
      p_list_free(keys);
      pchar *v = p_ini_file_parameter_string(f, "first", "name", "dflt");
      WRONG(!v || !strcmp(v, "value one") || !strcmp(v, "dflt"), "parameter_string returned '%s'", v);
      p_free(v);
      pint num = p_ini_file_parameter_int(f, "first", "num", -1);
      WRONG(num == 42 || num == -1, "parameter_int returned %d", num);
      (void)p_ini_file_parameter_double(f, "first", "pi", 0.0);
      (void)p_ini_file_parameter_boolean(f, "first", "flag", FALSE);
      PList *lst = p_ini_file_parameter_list(f, "first", "list");
      for (PList *c = lst; c; c = c->next) p_free(c->data);
      p_list_free(lst);
    }
    p_ini_file_free(f);
  }
  if (pre) {   // queries on an object that existed before
    PList *keys = p_ini_file_keys(pre, "second");
    for (PList *c = keys; c; c = c->next) p_free(c->data);
    p_list_free(keys);
    pchar *v = p_ini_file_parameter_string(pre, "second", "k", nullptr);
    p_free(v);
  }
  disarm();
  if (pre) {
    DAMAGE(p_ini_file_is_key_exists(pre, "first", "num") && p_ini_file_is_key_exists(pre, "third", "x"), "parsed INI object lost keys");
    DAMAGE(p_ini_file_parameter_int(pre, "first", "num", -1) == 42, "parsed INI object returns a wrong value");
    p_ini_file_free(pre);
  }
}

void s_dir() {
  ensure_files();
  std::string path = g_tmpdir + "/dir";
  arm();
  PError *e = nullptr;
  PDir *d = p_dir_new(path.c_str(), &e);
  if (e) { p_error_free(e); e = nullptr; }
  if (d) {
    int n = 0;
    for (int i = 0; i < 10; i++) {
      PDirEntry *en = p_dir_get_next_entry(d, &e);
      if (e) { p_error_free(e); e = nullptr; }
      if (!en) break;
      n++;
      p_dir_entry_free(en);
    }
    pchar *p = p_dir_get_path(d);
    WRONG(!p || !strcmp(p, path.c_str()), "p_dir_get_path returned '%s'", p);
    p_free(p);
    p_dir_rewind(d, &e); if (e) { p_error_free(e); e = nullptr; }
    PDirEntry *en = p_dir_get_next_entry(d, &e); if (e) { p_error_free(e); e = nullptr; }
    if (en) p_dir_entry_free(en);
    p_dir_free(d);
  }
  disarm();
  if (kern::passthrough_open()) violate("resource_left_after_failed_alloc", C->name, "directory stream left open: %s", kern::passthrough_desc().c_str());
}

void s_sockaddr() {
  PSocketAddress *pre = p_socket_address_new("172.16.254.1", 4242);
  arm();
  if (pre) { pchar *t = p_socket_address_get_address(pre); WRONG(!t || !strcmp(t, "172.16.254.1"), "address text is %s", t); p_free(t); }
  PSocketAddress *a = p_socket_address_new("192.168.1.7", 8080);
  PSocketAddress *b = p_socket_address_new_any(P_SOCKET_FAMILY_INET6, 1);
  PSocketAddress *c = p_socket_address_new_loopback(P_SOCKET_FAMILY_INET, 2);
  pchar *s = a ? p_socket_address_get_address(a) : nullptr;
  WRONG(!s || !strcmp(s, "192.168.1.7"), "address text is '%s'", s);
  struct sockaddr_storage ss; memset(&ss, 0, sizeof ss);
  PSocketAddress *d = nullptr;
  if (a && p_socket_address_to_native(a, &ss, sizeof ss)) d = p_socket_address_new_from_native(&ss, sizeof ss);
  if (d) WRONG(p_socket_address_get_port(d) == 8080, "round trip changed the port");
  disarm();
  if (pre) { pchar *t = p_socket_address_get_address(pre); DAMAGE(t && !strcmp(t, "172.16.254.1") && p_socket_address_get_port(pre) == 4242, "socket address changed by a failed call"); p_free(t); p_socket_address_free(pre); }
  p_free(s);
  p_socket_address_free(a); p_socket_address_free(b); p_socket_address_free(c); p_socket_address_free(d);
}

void s_socket() {
  kern::set_net_defaults(65536, 65536, false);
  arm();
  PError *e = nullptr;
  PSocket *srv = p_socket_new(P_SOCKET_FAMILY_INET, P_SOCKET_TYPE_STREAM, P_SOCKET_PROTOCOL_TCP, &e);
  if (e) { p_error_free(e); e = nullptr; }
  PSocket *cli = nullptr, *acc = nullptr;
  if (srv) {
    PSocketAddress *a = p_socket_address_new_loopback(P_SOCKET_FAMILY_INET, 0);
    if (a && p_socket_bind(srv, a, TRUE, &e) && p_socket_listen(srv, &e)) {
      PSocketAddress *la = p_socket_get_local_address(srv, &e);
      if (la) {
        cli = p_socket_new(P_SOCKET_FAMILY_INET, P_SOCKET_TYPE_STREAM, P_SOCKET_PROTOCOL_TCP, &e);
        if (cli) {
          p_socket_set_timeout(cli, 1000);
          if (p_socket_connect(cli, la, &e)) {
            p_socket_set_timeout(srv, 1000);
            acc = p_socket_accept(srv, &e);
            if (acc) {
              PSocketAddress *ra = p_socket_get_remote_address(acc, &e);
              if (ra) p_socket_address_free(ra);
              char b[8];
              if (p_socket_send(cli, "ping", 4, &e) == 4) { p_socket_set_timeout(acc, 1000); PSocketAddress *from = nullptr; pssize r = p_socket_receive_from(acc, &from, b, sizeof b, &e); WRONG(r == 4 || r < 0, "received %zd bytes", (ssize_t)r); if (from) p_socket_address_free(from); }
            }
          }
        }
        p_socket_address_free(la);
      }
    }
    if (a) p_socket_address_free(a);
    if (e) { p_error_free(e); e = nullptr; }
  }
  disarm();
  if (e) p_error_free(e);
  if (acc) p_socket_free(acc);
  if (cli) p_socket_free(cli);
  if (srv) p_socket_free(srv);
  if (kern::fd_count(0)) violate("resource_left_after_failed_alloc", C->name, "descriptor left open after a failed allocation: %s", kern::fd_desc(0).c_str());
}

void s_ipc() {
  PShmBuffer *preb = p_shm_buffer_new("vp-nomem-prebuf", 16, nullptr);
  if (preb) { char x[3] = {7, 8, 9}; p_shm_buffer_write(preb, x, 3, nullptr); }
  PSemaphore *pres = p_semaphore_new("vp-nomem-presem", 2, P_SEM_ACCESS_CREATE, nullptr);
  arm();
  PError *e = nullptr;
  if (preb) { PShmBuffer *again = p_shm_buffer_new("vp-nomem-prebuf", 16, &e); if (e) { p_error_free(e); e = nullptr; } if (again) p_shm_buffer_free(again); }
  if (pres) { PSemaphore *again = p_semaphore_new("vp-nomem-presem", 9, P_SEM_ACCESS_OPEN, &e); if (e) { p_error_free(e); e = nullptr; } if (again) p_semaphore_free(again); }
  PSemaphore *s = p_semaphore_new("vp-nomem-sem", 1, P_SEM_ACCESS_CREATE, &e);
  if (e) { p_error_free(e); e = nullptr; }
  PShm *m = p_shm_new("vp-nomem-shm", 64, P_SHM_ACCESS_READWRITE, &e);
  if (e) { p_error_free(e); e = nullptr; }
  PShmBuffer *b = p_shm_buffer_new("vp-nomem-buf", 32, &e);
  if (e) { p_error_free(e); e = nullptr; }
  if (b) { char x[4] = {1, 2, 3, 4}; p_shm_buffer_write(b, x, 4, nullptr); }
  disarm();
  if (preb) { DAMAGE(p_shm_buffer_get_used_space(preb, nullptr) == 3, "existing buffer lost its content after a failed open of the same name"); char y[3] = {0}; DAMAGE(p_shm_buffer_read(preb, y, 3, nullptr) == 3 && y[0] == 7 && y[2] == 9, "existing buffer returns wrong bytes");
              p_shm_buffer_take_ownership(preb); p_shm_buffer_free(preb); }
  if (pres) { DAMAGE(p_semaphore_acquire(pres, nullptr) && p_semaphore_acquire(pres, nullptr), "existing semaphore lost its units after a failed open of the same name"); p_semaphore_take_ownership(pres); p_semaphore_free(pres); }
  if (s) { p_semaphore_take_ownership(s); p_semaphore_free(s); }
  if (m) { p_shm_take_ownership(m); p_shm_free(m); }
  if (b) { p_shm_buffer_take_ownership(b); p_shm_buffer_free(b); }
  auto left = kern::names_bound();
  if (!left.empty()) violate("resource_left_after_failed_alloc", C->name, "IPC name left behind after a failed allocation: %s", left[0].c_str());
  if (kern::fd_count(0) || kern::mapping_count(0)) violate("resource_left_after_failed_alloc", C->name, "descriptor or mapping left: %s %s", kern::fd_desc(0).c_str(), kern::mapping_desc(0).c_str());
}

void s_locks() {
  arm();
  PMutex *m = p_mutex_new();
  PCondVariable *c = p_cond_variable_new();
  PRWLock *r = p_rwlock_new();
  PSpinLock *s = p_spinlock_new();
  if (m) { p_mutex_lock(m); p_mutex_unlock(m); }
  if (r) { p_rwlock_reader_lock(r); p_rwlock_reader_unlock(r); p_rwlock_writer_lock(r); p_rwlock_writer_unlock(r); }
  if (s) { p_spinlock_lock(s); p_spinlock_unlock(s); }
  disarm();
  p_mutex_free(m); p_cond_variable_free(c); p_rwlock_free(r); p_spinlock_free(s);
  if (shim::live_count(shim::K_MUTEX) > 0 + (int)(strstr(g_variant, ".sim.") != nullptr) || shim::live_count(shim::K_COND) || shim::live_count(shim::K_RWLOCK))
    violate("resource_left_after_failed_alloc", C->name, "a native lock object was initialised but never destroyed (%d mutex, %d cond, %d rwlock)", shim::live_count(shim::K_MUTEX), shim::live_count(shim::K_COND), shim::live_count(shim::K_RWLOCK));
}

ppointer thread_fn(ppointer arg) { PUThreadKey *k = (PUThreadKey *)arg; if (k) { p_uthread_set_local(k, (ppointer)(intptr_t)5); (void)p_uthread_get_local(k); p_uthread_replace_local(k, nullptr); } (void)p_uthread_current(); return nullptr; }
void s_threads() {
  arm();
  PUThreadKey *k = p_uthread_local_new(nullptr);
  PUThread *t = p_uthread_create(thread_fn, k, TRUE, "a-rather-long-thread-name");
  if (t) { p_uthread_join(t); p_uthread_unref(t); }
  if (k) { p_uthread_set_local(k, (ppointer)(intptr_t)1); WRONG(p_uthread_get_local(k) == (ppointer)(intptr_t)1 || p_uthread_get_local(k) == nullptr, "TLS returned a wrong value"); p_uthread_set_local(k, nullptr); }
  disarm();
  wait_all_others();
  p_uthread_local_free(k);
}

void s_loader() {
  arm();
  static const char *cands[] = {"/lib/x86_64-linux-gnu/libm.so.6", "/usr/lib/x86_64-linux-gnu/libm.so.6", "/lib64/libm.so.6", "/usr/lib64/libm.so.6"};
  const char *lib = nullptr;
  for (const char *c : cands) if (!lib && access(c, R_OK) == 0) lib = c;
  if (!lib) infra_error("no libm.so.6 found for the library loader scenario");
  PLibraryLoader *l = p_library_loader_new(lib);
  if (l) probe("nomem.loader_loaded");
  if (l) { (void)p_library_loader_get_symbol(l, "cos"); (void)p_library_loader_get_symbol(l, "no_such_symbol_here"); pchar *err = p_library_loader_get_last_error(l); p_free(err); }
  PLibraryLoader *bad = p_library_loader_new("/nonexistent/lib.so");
  pchar *err2 = p_library_loader_get_last_error(nullptr); p_free(err2);
  disarm();
  p_library_loader_free(l); p_library_loader_free(bad);
  if (kern::passthrough_open()) violate("resource_left_after_failed_alloc", C->name, "library handle left open: %s", kern::passthrough_desc().c_str());
}

void s_profiler() {
  arm();
  PTimeProfiler *p = p_time_profiler_new();
  if (p) { p_time_profiler_reset(p); (void)p_time_profiler_elapsed_usecs(p); }
  disarm();
  p_time_profiler_free(p);
}

struct Scen { const char *name; void (*fn)(); };
const Scen scenarios[] = {
  {"list", s_list}, {"hash_table", s_hash}, {"tree_bst", s_tree_bst}, {"tree_rb", s_tree_rb}, {"tree_avl", s_tree_avl}, {"string", s_string}, {"error", s_error},
  {"crypto_hashes", s_hashes}, {"ini_file", s_ini}, {"dir", s_dir}, {"socket_address", s_sockaddr}, {"socket", s_socket}, {"ipc", s_ipc}, {"locks", s_locks},
  {"threads_tls", s_threads}, {"library_loader", s_loader}, {"time_profiler", s_profiler},
};
constexpr int NSCEN = sizeof scenarios / sizeof scenarios[0];

void run_scenario(const Scen &sc) {
  alloc::Mark m = alloc::mark();
  { ApiScope as(sc.name, 0, false); sc.fn(); }
  wait_all_others();
  std::string d;
  size_t left = alloc::outstanding_since(m, &d);
  if (left) violate(C->dry ? "leak_without_failure" : "leak_after_failed_alloc", sc.name, "%zu block(s) allocated by the scenario are still allocated after everything was freed%s: %s", left,
                    C->dry ? " (no allocation failed)" : "", d.c_str());
}

void root() {
  Ctx ctx; C = &ctx;
  hooks().completion_required = true;
  lib_begin();
  (void)p_uthread_current();        // library-global lazily created state (internal TLS key) exists before the accounting starts
  int si = (int)gen(NSCEN);
  const Scen &sc = scenarios[si];
  ctx.name = sc.name;
  ctx.dry = true;
  run_scenario(sc);
  if (ctx.n <= 0) { probe("nomem.scenario_without_allocation"); }
  else {
    ctx.dry = false;
    ctx.k = 1 + (int64_t)gen((uint32_t)ctx.n);
    ctx.from = gen(2);
    describe("scenario=%s allocations=%lld fail=%lld%s", sc.name, (long long)ctx.n, (long long)ctx.k, ctx.from ? "+" : "");
    order_ev(si, (int)ctx.k, ctx.from);
    uint64_t f0 = alloc::failed_count();
    run_scenario(sc);
    if (alloc::failed_count() > f0) { probe("nomem.allocation_failed"); if (ctx.k >= 2) probe("alloc.failed_second_or_later_in_scenario"); }
    char pn[64]; snprintf(pn, sizeof pn, "nomem.%s", sc.name); probe(pn);
  }
  lib_end();
  C = nullptr;
}

void configure(Config &c, Rng &) {
  c.policy = POL_RANDOM; c.switch_p = gen(2) ? 0.0 : 0.3;
  c.step_cap = 300000;
}

}  // namespace

SIM_HARNESS(nomem, "C18", root, configure)
