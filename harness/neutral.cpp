// C20 — resource neutrality: after any program in which every object obtained is eventually freed (named IPC
// objects by an owner) the process holds no library allocation, descriptor, mapping or IPC name more than before;
// also when calls fail (allocation failures, failing system calls).
#include "common.h"
#include "../sim/kernel.h"
#include "../sim/knet.h"
#include <string.h>
#include <stdlib.h>
#include <stdio.h>
#include <unistd.h>
#include <errno.h>
#include <sys/stat.h>
#include <string>

using namespace hx;

namespace {

enum OT { O_LIST, O_HASH, O_TREE, O_INI, O_CHASH, O_ERR, O_DIR, O_ADDR, O_SOCK, O_SEM, O_SHM, O_BUF, O_THREAD, O_KEY, O_MUTEX, O_COND, O_RW, O_SPIN, O_LOADER, O_PROF, O_NTYPES };
const char *ot_name[] = {"list", "hash", "tree", "ini", "cryptohash", "error", "dir", "sockaddr", "socket", "semaphore", "shm", "shmbuffer", "thread", "tlskey", "mutex", "cond", "rwlock", "spinlock", "loader", "profiler"};
struct Obj { OT t; void *p; int aux = 0; bool joined = false; };
struct St { std::vector<Obj> pool; std::vector<PUThreadKey *> keys; std::vector<bool> key_owns; int created[O_NTYPES] = {0}; int threads_started = 0; };
St *S;
std::string g_tmpdir;

void ensure_files() {
  if (!g_tmpdir.empty()) return;
  char exe[512]; ssize_t n = readlink("/proc/self/exe", exe, sizeof exe - 1); exe[n > 0 ? n : 0] = 0;
  std::string d(exe); d = d.substr(0, d.rfind('/')); d = d.substr(0, d.rfind('/')) + "/run";
  mkdir(d.c_str(), 0755);
  char sub[64]; snprintf(sub, sizeof sub, "/neutral-%d", (int)getpid());
  g_tmpdir = d + sub;
  mkdir(g_tmpdir.c_str(), 0755);
  FILE *f = fopen((g_tmpdir + "/a.ini").c_str(), "w");
  fputs("; leading comment\n\n[s1]\na=1\n# a comment line\nb = two ; trailing\n   \nl={x y z}\n[s2]\n;another\nc=3.5\nnot a parameter line\n", f);
  fclose(f);
  mkdir((g_tmpdir + "/dir").c_str(), 0755);
  for (const char *nm : {"/dir/f1", "/dir/f2"}) { FILE *g = fopen((g_tmpdir + nm).c_str(), "w"); fputs("x", g); fclose(g); }
}

int cmp_key(pconstpointer a, pconstpointer b, ppointer) { int x = *(const int *)a, y = *(const int *)b; return x < y ? -1 : x > y ? 1 : 0; }
pboolean trav_cb(ppointer, ppointer, ppointer data) { (*(int *)data)++; return FALSE; }
void tls_dtor(ppointer v) { p_free(v); }

ppointer thread_body(ppointer arg) {
  int mode = (int)(intptr_t)arg;
  if (!S->keys.empty() && (mode & 1)) {
    size_t ki = (size_t)mode % S->keys.size();
    PUThreadKey *k = S->keys[ki];
    if (S->key_owns[ki]) {     // heap values only under a key whose notifier frees them; a set that did not take (failed key creation) leaves the value with the caller
      ppointer v = p_malloc(12);
      p_uthread_set_local(k, v);
      if (v && p_uthread_get_local(k) != v) { p_free(v); probe("neutral.tls_set_failed"); }
      else if (mode & 2) { ppointer w = p_malloc(5); p_uthread_replace_local(k, w); if (w && p_uthread_get_local(k) != w) p_free(w); }
    }
    else { p_uthread_set_local(k, (ppointer)(intptr_t)7); (void)p_uthread_get_local(k); }
  }
  if (mode & 4) (void)p_uthread_current();
  if (mode & 8) p_uthread_yield();
  if (mode & 16) p_uthread_exit(3);
  return nullptr;
}

void add(OT t, void *p, int aux = 0) { if (p) { Obj o; o.t = t; o.p = p; o.aux = aux; S->pool.push_back(o); S->created[t]++; } }

const char *ipc_names[] = {"vp-neutral-a", "vp-neutral-b"};

void create_one() {
  OT t = (OT)gen(O_NTYPES);
  ApiScope as(ot_name[t], (int)t, false);
  PError *e = nullptr;
  switch (t) {
  case O_LIST: { PList *l = nullptr; int n = 1 + (int)gen(4); for (int i = 0; i < n; i++) l = p_list_append(l, (ppointer)(intptr_t)(i + 1)); add(t, l); break; }
  case O_HASH: { PHashTable *h = p_hash_table_new(); if (h) for (int i = 0; i < 4; i++) p_hash_table_insert(h, (ppointer)(intptr_t)(i * 101 + 1), (ppointer)(intptr_t)i); add(t, h); break; }
  case O_TREE: { PTree *tr = p_tree_new_full((PTreeType)gen(3), cmp_key, nullptr, p_free, p_free); add(t, tr); break; }
  case O_INI: { ensure_files(); static const char *ini_paths[] = {"/a.ini", "/a.ini", "/a.ini", "/missing.ini", "/dir"};      // a directory opens, every read of it fails
                PIniFile *f = p_ini_file_new((g_tmpdir + ini_paths[gen(5)]).c_str()); add(t, f); break; }
  case O_CHASH: add(t, p_crypto_hash_new((PCryptoHashType)gen(P_CRYPTO_HASH_TYPE_GOST + 1))); break;
  case O_ERR: add(t, p_error_new_literal(1, 2, "some message")); break;
  case O_DIR: { ensure_files(); add(t, p_dir_new((g_tmpdir + (gen(5) == 0 ? "/nodir" : "/dir")).c_str(), &e)); break; }
  case O_ADDR: { uint32_t r = gen(4);      // IPv6 literals go through the resolver
                 add(t, r == 0 ? p_socket_address_new("10.1.2.3", 99) : r == 1 ? p_socket_address_new_any(P_SOCKET_FAMILY_INET6, 7) : r == 2 ? p_socket_address_new("2001:db8::17", 99) : p_socket_address_new("::1", 5)); break; }
  case O_SOCK: {
    uint32_t kind = gen(5);
    PSocketFamily fam = gen(2) ? P_SOCKET_FAMILY_INET : P_SOCKET_FAMILY_INET6;
    if (kind == 0) { add(t, p_socket_new(fam, P_SOCKET_TYPE_DATAGRAM, P_SOCKET_PROTOCOL_UDP, &e)); break; }
    if (kind == 1) {   // connect to nobody: refused
      PSocket *c = p_socket_new(fam, P_SOCKET_TYPE_STREAM, P_SOCKET_PROTOCOL_TCP, &e);
      if (c) { PSocketAddress *to = p_socket_address_new_loopback(fam, 51999); if (to) { p_socket_set_timeout(c, 100); p_socket_connect(c, to, &e); p_socket_address_free(to); } add(t, c); }
      break;
    }
    // listener + client (+ accepted): connection established, or timed out against a full backlog
    PSocket *srv = p_socket_new(fam, P_SOCKET_TYPE_STREAM, P_SOCKET_PROTOCOL_TCP, &e);
    if (!srv) break;
    add(t, srv);
    PSocketAddress *a = p_socket_address_new_loopback(fam, 0);
    bool ok = a && p_socket_bind(srv, a, TRUE, &e);
    if (a) p_socket_address_free(a);
    if (kind == 4) p_socket_set_listen_backlog(srv, 0);
    ok = ok && p_socket_listen(srv, &e);
    if (!ok) break;
    PSocketAddress *la = p_socket_get_local_address(srv, &e);
    if (!la) break;
    int nclients = kind == 4 ? 2 : 1;
    for (int i = 0; i < nclients; i++) {
      PSocket *c = p_socket_new(fam, P_SOCKET_TYPE_STREAM, P_SOCKET_PROTOCOL_TCP, &e);
      if (!c) continue;
      add(t, c);
      p_socket_set_timeout(c, 30);
      if (p_socket_connect(c, la, &e) && kind != 4) {
        p_socket_set_timeout(srv, 30);
        PSocket *acc = p_socket_accept(srv, &e);
        if (acc) { add(t, acc); char b[16]; if (p_socket_send(c, "hello", 5, &e) > 0) { p_socket_set_timeout(acc, 30); p_socket_receive(acc, b, sizeof b, &e); } }
      }
      if (e) { p_error_free(e); e = nullptr; }
    }
    p_socket_address_free(la);
    break;
  }
  case O_SEM: add(t, p_semaphore_new(ipc_names[gen(2)], (pint)gen(3), gen(3) == 0 ? P_SEM_ACCESS_CREATE : P_SEM_ACCESS_OPEN, &e)); break;
  case O_SHM: { static const psize sz[] = {1, 100, 4096, 5000, 20000}; add(t, p_shm_new(ipc_names[gen(2)], sz[gen(5)], gen(4) == 0 ? P_SHM_ACCESS_READONLY : P_SHM_ACCESS_READWRITE, &e)); break; }
  case O_BUF: { static const psize sz[] = {8, 64, 200, 5000}; add(t, p_shm_buffer_new(gen(2) ? "vp-neutral-buf" : "vp-neutral-buf2", sz[gen(4)], &e)); break; }
  case O_THREAD: {
    bool joinable = gen(3) != 0;
    PUThread *th = p_uthread_create(thread_body, (ppointer)(intptr_t)gen(32), joinable, gen(2) ? (gen(3) == 0 ? "a-worker-with-a-name-longer-than-the-system-allows" : "worker") : nullptr);
    if (th) { S->threads_started++; add(t, th, joinable); }
    break;
  }
  case O_KEY: { bool owns = gen(4) != 0; PUThreadKey *k = p_uthread_local_new(owns ? tls_dtor : nullptr); if (k) { S->keys.push_back(k); S->key_owns.push_back(owns); S->created[t]++; } break; }
  case O_MUTEX: add(t, p_mutex_new()); break;
  case O_COND: add(t, p_cond_variable_new()); break;
  case O_RW: add(t, p_rwlock_new()); break;
  case O_SPIN: add(t, p_spinlock_new()); break;
  case O_LOADER: { ensure_files(); uint32_t r = gen(4);
                   std::string probe_mod = g_tmpdir.substr(0, g_tmpdir.rfind('/')) + "/libvpprobe.so";      // a module nothing else in the process has loaded
                   add(t, p_library_loader_new(r == 0 ? "/nonexistent/libx.so" : r == 1 ? "/lib/x86_64-linux-gnu/libm.so.6" : probe_mod.c_str())); break; }
  case O_PROF: add(t, p_time_profiler_new()); break;
  default: break;
  }
  if (e) p_error_free(e);
}

void use_one(Obj &o) {
  ApiScope as(ot_name[o.t], (int)o.t, false);
  PError *e = nullptr;
  switch (o.t) {
  case O_LIST: { PList *l = (PList *)o.p; uint32_t r = gen(4); if (r == 0) l = p_list_append(l, (ppointer)(intptr_t)9); else if (r == 1) l = p_list_prepend(l, (ppointer)(intptr_t)8); else if (r == 2) l = p_list_remove(l, (ppointer)(intptr_t)(1 + gen(9))); else l = p_list_reverse(l);
                 o.p = l; break; }
  case O_HASH: { PHashTable *h = (PHashTable *)o.p; uint32_t r = gen(5);
                 if (r == 0) p_hash_table_insert(h, (ppointer)(intptr_t)(1 + gen(500)), nullptr); else if (r == 1) p_hash_table_remove(h, (ppointer)(intptr_t)(1 + gen(500)));
                 else if (r == 2) p_list_free(p_hash_table_keys(h)); else if (r == 3) p_list_free(p_hash_table_values(h)); else p_list_free(p_hash_table_lookup_by_value(h, (ppointer)(intptr_t)1, nullptr));
                 break; }
  case O_TREE: {
    PTree *tr = (PTree *)o.p; uint32_t r = gen(6);
    if (r <= 2) {   // insert an owned heap pair
      int *k = (int *)p_malloc(sizeof(int)); int *v = (int *)p_malloc(sizeof(int));
      if (!k || !v) { p_free(k); p_free(v); break; }
      *k = (int)gen(12); *v = *k * 10;
      p_tree_insert(tr, k, v);
      // ownership moved to the tree only if the pair was stored; an insertion that failed (allocation) leaves it with the caller
      if (p_tree_lookup(tr, k) != v) { p_free(k); p_free(v); probe("neutral.tree_insert_failed"); }
      else if (p_tree_get_nnodes(tr) >= 6) probe("neutral.tree_6_nodes");
    } else if (r == 3 || r == 4) { int key = (int)gen(12); if (p_tree_remove(tr, &key)) probe("neutral.tree_removed"); }
    else if (gen(3) == 0) p_tree_clear(tr); else { int n = 0; p_tree_foreach(tr, trav_cb, &n); }
    break;
  }
  case O_INI: { PIniFile *f = (PIniFile *)o.p; if (p_ini_file_parse(f, &e)) { PList *s = p_ini_file_sections(f); for (PList *c = s; c; c = c->next) p_free(c->data); p_list_free(s);
                 PList *l = p_ini_file_parameter_list(f, "s1", "l"); for (PList *c = l; c; c = c->next) p_free(c->data); p_list_free(l); p_free(p_ini_file_parameter_string(f, "s1", "b", "d")); } break; }
  case O_CHASH: { PCryptoHash *h = (PCryptoHash *)o.p; p_crypto_hash_update(h, (const puchar *)"data", 4); if (gen(2)) p_free(p_crypto_hash_get_string(h)); else p_crypto_hash_reset(h); break; }
  case O_ERR: { PError *x = (PError *)o.p; if (gen(2)) p_error_set_message(x, "another message"); else { PError *c = p_error_copy(x); p_error_free(c); } break; }
  case O_DIR: { PDir *d = (PDir *)o.p; PDirEntry *en = p_dir_get_next_entry(d, &e); if (en) p_dir_entry_free(en); if (gen(3) == 0) p_dir_rewind(d, &e); p_free(p_dir_get_path(d)); break; }
  case O_ADDR: { PSocketAddress *a = (PSocketAddress *)o.p; p_free(p_socket_address_get_address(a)); break; }
  case O_SOCK: { PSocket *s = (PSocket *)o.p; uint32_t r = gen(5);
                 if (r == 0) { PSocketAddress *a = p_socket_get_local_address(s, &e); if (a) p_socket_address_free(a); }
                 else if (r == 1) { PSocketAddress *a = p_socket_get_remote_address(s, &e); if (a) p_socket_address_free(a); }
                 else if (r == 2) p_socket_close(s, &e);
                 else if (r == 3) { p_socket_set_timeout(s, 10); char b[8]; PSocketAddress *from = nullptr; p_socket_receive_from(s, &from, b, sizeof b, &e); if (from) p_socket_address_free(from); }
                 else p_socket_shutdown(s, TRUE, TRUE, &e);
                 break; }
  case O_SEM: { PSemaphore *s = (PSemaphore *)o.p; p_semaphore_release(s, &e); if (gen(2)) p_semaphore_acquire(s, &e); break; }
  case O_SHM: { PShm *m = (PShm *)o.p; if (p_shm_lock(m, &e)) p_shm_unlock(m, &e); break; }
  case O_BUF: { PShmBuffer *b = (PShmBuffer *)o.p; char x[6] = "abcde"; if (gen(2)) p_shm_buffer_write(b, x, 5, &e); else p_shm_buffer_read(b, x, 5, &e); break; }
  case O_THREAD: { PUThread *t = (PUThread *)o.p; if (o.aux && !o.joined) { p_uthread_join(t); o.joined = true; } else { p_uthread_ref(t); p_uthread_unref(t); } break; }
  case O_MUTEX: { PMutex *m = (PMutex *)o.p; if (p_mutex_trylock(m)) p_mutex_unlock(m); break; }
  case O_COND: p_cond_variable_signal((PCondVariable *)o.p); break;
  case O_RW: { PRWLock *l = (PRWLock *)o.p; if (p_rwlock_reader_trylock(l)) p_rwlock_reader_unlock(l); if (p_rwlock_writer_trylock(l)) p_rwlock_writer_unlock(l); break; }
  case O_SPIN: { PSpinLock *s = (PSpinLock *)o.p; if (p_spinlock_trylock(s)) p_spinlock_unlock(s); break; }
  case O_LOADER: { PLibraryLoader *l = (PLibraryLoader *)o.p; (void)p_library_loader_get_symbol(l, gen(2) ? "sin" : "nope"); p_free(p_library_loader_get_last_error(l)); break; }
  case O_PROF: (void)p_time_profiler_elapsed_usecs((PTimeProfiler *)o.p); break;
  default: break;
  }
  if (e) p_error_free(e);
}

void free_one(Obj &o) {
  ApiScope as(ot_name[o.t], (int)o.t, false);
  switch (o.t) {
  case O_LIST: p_list_free((PList *)o.p); break;
  case O_HASH: p_hash_table_free((PHashTable *)o.p); break;
  case O_TREE: p_tree_free((PTree *)o.p); break;
  case O_INI: p_ini_file_free((PIniFile *)o.p); break;
  case O_CHASH: p_crypto_hash_free((PCryptoHash *)o.p); break;
  case O_ERR: p_error_free((PError *)o.p); break;
  case O_DIR: p_dir_free((PDir *)o.p); break;
  case O_ADDR: p_socket_address_free((PSocketAddress *)o.p); break;
  case O_SOCK: p_socket_free((PSocket *)o.p); break;
  case O_SEM: p_semaphore_take_ownership((PSemaphore *)o.p); p_semaphore_free((PSemaphore *)o.p); break;       // freed by an owner
  case O_SHM: p_shm_take_ownership((PShm *)o.p); p_shm_free((PShm *)o.p); break;
  case O_BUF: p_shm_buffer_take_ownership((PShmBuffer *)o.p); p_shm_buffer_free((PShmBuffer *)o.p); break;
  case O_THREAD: { PUThread *t = (PUThread *)o.p; if (o.aux && !o.joined) p_uthread_join(t); p_uthread_unref(t); break; }
  case O_MUTEX: p_mutex_free((PMutex *)o.p); break;
  case O_COND: p_cond_variable_free((PCondVariable *)o.p); break;
  case O_RW: p_rwlock_free((PRWLock *)o.p); break;
  case O_SPIN: p_spinlock_free((PSpinLock *)o.p); break;
  case O_LOADER: p_library_loader_free((PLibraryLoader *)o.p); break;
  case O_PROF: p_time_profiler_free((PTimeProfiler *)o.p); break;
  default: break;
  }
}

void root() {
  S = new St();
  hooks().completion_required = true;
  lib_begin();
  (void)p_uthread_current();
  kern::set_net_defaults(4096, 4096, false);
  int tier = cfg().tier;
  // baseline
  alloc::Mark m0 = alloc::mark();
  int fds0 = kern::fd_count(0), maps0 = kern::mapping_count(0), mtx0 = shim::live_count(shim::K_MUTEX), cnd0 = shim::live_count(shim::K_COND), rw0 = shim::live_count(shim::K_RWLOCK);
  // fault plan: allocation failures by probability, up to two planned system-call failures
  alloc::fault_flip_enabled = cfg().p[ST_ALLOC] > 0;
  int nplans = (int)gen(3);
  static const struct { int call, err; } fails[] = {{kern::SC_SOCKET, EMFILE}, {kern::SC_SHM_OPEN, ENFILE}, {kern::SC_SHM_OPEN, EACCES}, {kern::SC_FTRUNCATE, ENOSPC}, {kern::SC_FSTAT, EIO},
                                                    {kern::SC_MMAP, ENOMEM}, {kern::SC_SEM_OPEN, ENOSPC}, {kern::SC_FOPEN, EMFILE}, {kern::SC_OPENDIR, EMFILE}, {kern::SC_DLOPEN, 1}, {kern::SC_GETADDRINFO, 1},
                                                    {kern::SC_ACCEPT, ECONNABORTED}, {kern::SC_BIND, EADDRINUSE}, {kern::SC_LISTEN, EADDRINUSE}, {kern::SC_SETSOCKOPT, ENOPROTOOPT}, {kern::SC_SEM_OPEN, EACCES},
                                                    {kern::SC_CONNECT, ENETUNREACH}, {kern::SC_CONNECT, ECONNREFUSED}, {kern::SC_FCNTL, EINVAL}, {kern::SC_FCNTL, ENOLCK}, {kern::SC_GETSOCKOPT, ENOBUFS}, {kern::SC_GETSOCKNAME, ENOBUFS}};
  describe("allocfail_p=%.2f plans=", cfg().p[ST_ALLOC]);
  for (int i = 0; i < nplans; i++) { auto &f = fails[gen(sizeof fails / sizeof fails[0])]; int kth = 1 + (int)gen(f.call == kern::SC_FCNTL ? 12 : 4); kern::plan_fail(f.call, kth, f.err); describe("%s#%d->%d ", kern::call_names[f.call], kth, f.err); }
  if (gen(6) == 0) { shim::fail_create_kth = 1 + (int)gen(3); describe("pthread_create#%d ", shim::fail_create_kth); }
  if (gen(8) == 0) { shim::fail_key_create_kth = 1 + (int)gen(3); describe("key_create#%d ", shim::fail_key_create_kth); }
  if (gen(8) == 0) { shim::fail_setname_kth = 1 + (int)gen(3); describe("setname#%d ", shim::fail_setname_kth); }
  int steps = (int)gen_range(5, tier ? 60 : 40);
  describe("steps=%d", steps);
  for (int i = 0; i < steps; i++) {
    uint32_t r = gen(10);
    if (S->pool.empty() || r < 4) create_one();
    else if (r < 8) use_one(S->pool[gen((uint32_t)S->pool.size())]);
    else { size_t idx = gen((uint32_t)S->pool.size()); free_one(S->pool[idx]); S->pool.erase(S->pool.begin() + idx); }
    if (!S->keys.empty() && gen(6) == 0) { PUThreadKey *k = S->keys[gen((uint32_t)S->keys.size())]; ppointer old = p_uthread_get_local(k); (void)old; p_uthread_replace_local(k, nullptr); }
  }
  // everything obtained is freed; threads first (they may still use keys), keys last
  for (size_t i = 0; i < S->pool.size(); i++) if (S->pool[i].t == O_THREAD) free_one(S->pool[i]);
  wait_all_others();
  for (size_t i = 0; i < S->pool.size(); i++) if (S->pool[i].t != O_THREAD) free_one(S->pool[i]);
  for (PUThreadKey *k : S->keys) { p_uthread_replace_local(k, nullptr); p_uthread_local_free(k); }
  alloc::fault_flip_enabled = false;
  for (int t = 0; t < O_NTYPES; t++) if (S->created[t]) { char pn[64]; snprintf(pn, sizeof pn, "neutral.%s", ot_name[t]); probe(pn); }
  if (alloc::failed_count()) probe("neutral.allocation_failed");
  // the oracle
  std::string d;
  size_t left = alloc::outstanding_since(m0, &d);
  std::string who = "?";
  { size_t a = d.find(" by "), b = d.find(']'); if (a != std::string::npos && b != std::string::npos && b > a + 4) who = d.substr(a + 4, b - a - 4); }
  if (left) violate("memory_left", who.c_str(), "%zu library allocation(s) outstanding after every object was freed: %s", left, d.c_str());
  if (kern::fd_count(0) != fds0) violate("descriptor_left", "end", "%d descriptor(s) more than before: %s", kern::fd_count(0) - fds0, kern::fd_desc(0).c_str());
  if (kern::bad_closes()) violate("descriptor_closed_twice", "end", "%d close() call(s) hit a descriptor that was not open (double or foreign close)", kern::bad_closes());
  if (kern::mapping_count(0) != maps0) violate("mapping_left", "end", "%d mapping(s) more than before: %s", kern::mapping_count(0) - maps0, kern::mapping_desc(0).c_str());
  auto names = kern::names_bound();
  if (!names.empty()) violate("ipc_name_left", "end", "%zu IPC name(s) remain in the system, e.g. %s", names.size(), names[0].c_str());
  if (kern::passthrough_open()) violate("stream_or_library_left_open", "end", "%s", kern::passthrough_desc().c_str());
  if (shim::live_count(shim::K_MUTEX) != mtx0 || shim::live_count(shim::K_COND) != cnd0 || shim::live_count(shim::K_RWLOCK) != rw0)
    violate("native_lock_left", "end", "native lock objects initialised and never destroyed: mutex %+d, cond %+d, rwlock %+d", shim::live_count(shim::K_MUTEX) - mtx0, shim::live_count(shim::K_COND) - cnd0, shim::live_count(shim::K_RWLOCK) - rw0);
  lib_end();
  delete S; S = nullptr;
}

void configure(Config &c, Rng &) {
  swarm_schedule(c, 400);
  c.step_cap = 1000000;
  static const double pa[] = {0, 0, 0.01, 0.05};
  c.p[ST_ALLOC] = pa[gen(4)];
  static const double pe[] = {0, 0.05};
  c.p[ST_EINTR] = pe[gen(2)];
}

}  // namespace

SIM_HARNESS(neutral, "C20", root, configure)
