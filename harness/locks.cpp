// C01 — PMutex / PSpinLock: mutual exclusion, visibility of critical-section writes, trylock rules.
#include "common.h"
#include <string.h>

using namespace hx;

namespace {

enum StepKind { S_LOCK, S_TRY, S_THINK, S_LOCK_NESTED };
struct Step { uint8_t kind; uint8_t lock; };

struct LockObj {
  bool is_spin;
  PMutex *m = nullptr;
  PSpinLock *s = nullptr;
  // shadow state kept by the harness (never read from library structures)
  int holders = 0;          // tasks between lock-return and unlock-invoke
  int inflight = 0;         // tasks inside any API call on this object
  uint64_t epoch = 0;       // bumped at every invoke on this object
  bool model_held = false;
  // data protected by the lock: plain, race-checked
  long counter = 0;
  long bodies = 0;
};

struct State {
  std::vector<LockObj> locks;
  std::vector<std::vector<Step>> scripts;
};
State *S;

bool do_lock(LockObj &L, int li) {
  L.inflight++; L.epoch++;
  pboolean r;
  int f0 = shim::mutex_lock_failures[cur()->id];
  if (L.is_spin) r = HX_API("p_spinlock_lock", li, false, p_spinlock_lock(L.s));
  else r = HX_API("p_mutex_lock", li, false, p_mutex_lock(L.m));
  L.inflight--;
  // the native lock call was made to fail inside this call: FALSE is the honest answer and the caller must stay outside
  if (!r && shim::mutex_lock_failures[cur()->id] != f0) { probe("lock.native_lock_failed_reported"); return false; }
  if (!r) violate("lock_returned_false", L.is_spin ? "p_spinlock_lock" : "p_mutex_lock", "lock call returned FALSE on a valid object");
  return true;
}
bool do_try(LockObj &L, int li) {
  bool was_free = !L.model_held && L.inflight == 0;
  L.inflight++; L.epoch++;
  uint64_t e0 = L.epoch;
  pboolean r;
  int f0 = shim::mutex_lock_failures[cur()->id];
  if (L.is_spin) r = HX_API("p_spinlock_trylock", li, true, p_spinlock_trylock(L.s));
  else r = HX_API("p_mutex_trylock", li, true, p_mutex_trylock(L.m));
  L.inflight--;
  if (shim::mutex_lock_failures[cur()->id] != f0) {
    // a native (try)lock call was made to fail inside this call: the caller got nothing, so TRUE would be a lie
    was_free = false;
    probe("lock.native_trylock_failed");
  }
  if (!r && was_free && L.epoch == e0 && !L.model_held)
    violate("trylock_failed_on_free_lock", L.is_spin ? "p_spinlock_trylock" : "p_mutex_trylock", "trylock returned FALSE although the lock was free and nobody else was using it");
  if (r) probe("lock.trylock_succeeded"); else probe("lock.trylock_busy");
  return r;
}
void do_unlock(LockObj &L, int li) {
  L.holders--;
  L.model_held = false;
  L.inflight++; L.epoch++;
  pboolean r;
  if (L.is_spin) r = HX_API("p_spinlock_unlock", li, false, p_spinlock_unlock(L.s));
  else r = HX_API("p_mutex_unlock", li, false, p_mutex_unlock(L.m));
  L.inflight--;
  if (!r) violate("unlock_returned_false", L.is_spin ? "p_spinlock_unlock" : "p_mutex_unlock", "unlock call returned FALSE for the holder");
}
void entered(LockObj &L, int li) {
  L.holders++;
  L.model_held = true;
  order_ev(li, 1, cur()->id);
  if (L.holders > 1) violate("mutual_exclusion", L.is_spin ? "spinlock" : "mutex", "two tasks hold lock %d at the same time", li);
}
void body(LockObj &L, int li) {
  // plain read-modify-write with a scheduling point in the middle: lost updates and races both show
  SIM_READ(L.counter);
  long v = L.counter;
  yield_point();
  if (L.holders > 1) violate("mutual_exclusion", L.is_spin ? "spinlock" : "mutex", "two tasks hold lock %d at the same time", li);
  SIM_WRITE(L.counter);
  L.counter = v + 1;
  L.bodies++;
}

void task_body(int ti) {
  auto &script = S->scripts[ti];
  for (auto &st : script) {
    LockObj &L = S->locks[st.lock];
    switch (st.kind) {
    case S_LOCK:
      if (do_lock(L, st.lock)) { entered(L, st.lock); body(L, st.lock); do_unlock(L, st.lock); }
      break;
    case S_TRY:
      if (do_try(L, st.lock)) { entered(L, st.lock); body(L, st.lock); do_unlock(L, st.lock); }
      break;
    case S_LOCK_NESTED: {
      // lock st.lock then the next higher lock (index order => no lock-order inversion)
      int hi = st.lock + 1;
      if (!do_lock(L, st.lock)) break;
      entered(L, st.lock); body(L, st.lock);
      if (hi < (int)S->locks.size()) {
        LockObj &H = S->locks[hi];
        if (do_lock(H, hi)) { entered(H, hi); body(H, hi); do_unlock(H, hi); }
        probe("lock.nested");
      }
      do_unlock(L, st.lock);
      break;
    }
    default:
      yield_point();
    }
  }
}

void root() {
  State st;
  S = &st;
  hooks().completion_required = true;
  lib_begin();
  int tier = cfg().tier;
  int nt = (int)gen_range(2, tier ? 5 : 4);
  int nl = (int)gen_range(1, tier ? 3 : 2);
  st.locks.resize(nl);
  describe("tasks=%d locks=[", nt);
  for (int i = 0; i < nl; i++) {
    LockObj &L = st.locks[i];
    L.is_spin = gen(2) == 0;      // 0 => spinlock (simplest choice shrinks towards the lock-free-code variant)
    if (L.is_spin) L.s = HX_API("p_spinlock_new", i, false, p_spinlock_new());
    else L.m = HX_API("p_mutex_new", i, false, p_mutex_new());
    if (!L.s && !L.m) violate("new_returned_null", "", "lock constructor returned NULL");
    describe("%s%s", i ? "," : "", L.is_spin ? "spin" : "mutex");
  }
  // state ageing: counters inside a lock implementation wrap at powers of two; a lock that has been through N uncontended
  // acquisitions must behave like a fresh one
  if (gen(100) == 0) {
    static const uint32_t ages[] = {254, 255, 256, 32767, 32768, 65534, 65535, 65536, 65537};
    uint32_t age = ages[gen(9)];
    describe("] aged=%u scripts=", age);
    for (int i = 0; i < nl; i++) {
      LockObj &L = st.locks[i];
      for (uint32_t k = 0; k < age; k++) {
        bool ok;
        if (L.is_spin) { ok = (k & 7) == 7 ? p_spinlock_trylock(L.s) : p_spinlock_lock(L.s); if (ok) ok = p_spinlock_unlock(L.s); }
        else { ok = (k & 7) == 7 ? p_mutex_trylock(L.m) : p_mutex_lock(L.m); if (ok) ok = p_mutex_unlock(L.m); }
        if (!ok) violate("uncontended_lock_failed", L.is_spin ? "spinlock" : "mutex", "uncontended lock/trylock/unlock number %u on one object returned FALSE", k + 1);
      }
    }
    probe("lock.aged");
  } else
  describe("] scripts=");
  st.scripts.resize(nt);
  for (int t = 0; t < nt; t++) {
    int ns = (int)gen_range(1, tier ? 12 : 8);
    describe("%s[", t ? " " : "");
    for (int k = 0; k < ns; k++) {
      Step s;
      uint32_t r = gen(8);
      s.kind = r < 4 ? S_LOCK : r < 6 ? S_TRY : r < 7 ? S_LOCK_NESTED : S_THINK;
      s.lock = (uint8_t)gen((uint32_t)nl);
      st.scripts[t].push_back(s);
      static const char *nm[] = {"lock", "try", "think", "nest"};
      describe("%s%s%d", k ? "," : "", nm[s.kind], s.lock);
    }
    describe("]");
  }
  // a native lock call that fails (resource shortage): the library call reports FALSE and the caller is not a holder
  if (gen(16) == 0) { shim::fail_mutex_lock_kth = 1 + (int)gen(12); describe(" native-lock-failure#%d", shim::fail_mutex_lock_kth); }
  if (gen(16) == 0) { shim::fail_mutex_trylock_kth = 1 + (int)gen(6); describe(" native-trylock-failure#%d", shim::fail_mutex_trylock_kth); }
  for (int t = 0; t < nt; t++) spawn(0, [t]() { task_body(t); });
  wait_all_others();
  shim::fail_mutex_lock_kth = 0; shim::fail_mutex_trylock_kth = 0;      // the faults belong to the scripts: the wind-down below is fault-free
  for (int i = 0; i < nl; i++) {
    LockObj &L = st.locks[i];
    SIM_READ(L.counter);
    if (L.counter != L.bodies) violate("lost_update", L.is_spin ? "spinlock" : "mutex", "counter of lock %d is %ld after %ld critical sections", i, L.counter, L.bodies);
    if (L.is_spin) HX_API_V("p_spinlock_free", i, false, p_spinlock_free(L.s));
    else HX_API_V("p_mutex_free", i, false, p_mutex_free(L.m));
  }
  lib_end();
}

void configure(Config &c, Rng &) {
  swarm_schedule(c, 150);
  c.step_cap = 1500000;
}

}  // namespace

SIM_HARNESS(locks, "C01", root, configure)
