// C03 — PCondVariable: atomic release-and-wait, owner on return, signal wakes >= 1, broadcast wakes all.
#include "common.h"
#include <deque>
#include <vector>

using namespace hx;

namespace {

struct St {
  PMutex *m = nullptr; int mnum = -1;
  PCondVariable *c1 = nullptr, *c2 = nullptr; int c1num = -1, c2num = -1;
  int holders = 0;               // shadow count of tasks that believe they hold m
  // bounded buffer (plain data, race-checked)
  long slots[4]; int head = 0, count = 0, cap = 1;
  long produced_sum = 0, consumed_sum = 0; int produced_n = 0, consumed_n = 0;
  // gate
  int flag = 0; int passed = 0;
  bool single_cond = false;
  bool trylock_producers = false;
  uint64_t hold_ns = 0;          // the notifier keeps the mutex for this much SIMULATED time before it changes the predicate (a waiter must sit it out:
                                 // whatever the implementation does internally meanwhile - timed slices, re-checks - the notification that follows must reach it)
  bool notify_unlocked = false;   // "unlock, then notify": legal usage; the waiter-set oracles need the mutex and are skipped
};
St *S;

void lock_m(bool by_trylock = false) {
  if (by_trylock) {
    // legal usage: poll with trylock (a free mutex must be obtainable this way also while somebody waits on a condition with it)
    for (;;) {
      if (HX_API("p_mutex_trylock", 0, true, p_mutex_trylock(S->m))) break;
      HX_API_V("p_uthread_yield", 0, false, p_uthread_yield());
    }
    probe("cond.mutex_taken_by_trylock");
  } else
  if (!HX_API("p_mutex_lock", 0, false, p_mutex_lock(S->m))) violate("lock_returned_false", "p_mutex_lock", "p_mutex_lock returned FALSE");
  if (++S->holders > 1) violate("mutual_exclusion", "mutex", "two tasks inside the mutex");
}
void unlock_m() {
  S->holders--;
  if (!HX_API("p_mutex_unlock", 0, false, p_mutex_unlock(S->m))) violate("unlock_returned_false", "p_mutex_unlock", "p_mutex_unlock returned FALSE");
}
void wait_c(PCondVariable *c, int cnum) {
  S->holders--;
  pboolean r = HX_API("p_cond_variable_wait", 1 + cnum, false, p_cond_variable_wait(c, S->m));
  if (!r) violate("wait_returned_false", "p_cond_variable_wait", "wait returned FALSE on valid objects");
  if (shim::mutex_owner(S->mnum) != cur()->id)
    violate("wait_returned_without_mutex", "p_cond_variable_wait", "wait returned but the mutex is owned by task %d, not by the caller %d", shim::mutex_owner(S->mnum), cur()->id);
  if (++S->holders > 1) violate("mutual_exclusion", "mutex", "a task woken from wait runs while another holds the mutex");
  order_ev(1 + cnum, 2, cur()->id);
}
// signal / broadcast issued while holding the mutex: the parked set can only shrink meanwhile
void signal_c(PCondVariable *c, int cnum, bool locked = true) {
  if (!locked) {
    if (!HX_API("p_cond_variable_signal", 1 + cnum, false, p_cond_variable_signal(c))) violate("signal_returned_false", "p_cond_variable_signal", "signal returned FALSE");
    probe("cond.notify_without_mutex");
    return;
  }
  // (a waiter may still be on its way into the native wait when the call starts - an implementation with a private lock lets it
  //  finish parking during the call - so the oracle counts wake-ups delivered, not the size of the parked set)
  int w0 = shim::cond_waiters(cnum);
  uint64_t wk0 = shim::cond_wakes(cnum);
  pboolean r = HX_API("p_cond_variable_signal", 1 + cnum, false, p_cond_variable_signal(c));
  if (!r) violate("signal_returned_false", "p_cond_variable_signal", "signal returned FALSE");
  if (w0 >= 1) {
    probe("cond.signal_with_waiter");
    if (shim::cond_wakes(cnum) == wk0) violate("signal_woke_nobody", "p_cond_variable_signal", "%d task(s) were waiting, signal returned TRUE, nobody was woken", w0);
  }
}
void broadcast_c(PCondVariable *c, int cnum, bool locked = true) {
  if (!locked) {
    if (!HX_API("p_cond_variable_broadcast", 1 + cnum, false, p_cond_variable_broadcast(c))) violate("broadcast_returned_false", "p_cond_variable_broadcast", "broadcast returned FALSE");
    probe("cond.notify_without_mutex");
    return;
  }
  int w0 = shim::cond_waiters(cnum);
  std::vector<int> ids = shim::cond_waiter_ids(cnum);
  std::vector<uint64_t> wk0; for (int id : ids) wk0.push_back(shim::task_cond_wakes(id));
  pboolean r = HX_API("p_cond_variable_broadcast", 1 + cnum, false, p_cond_variable_broadcast(c));
  if (!r) violate("broadcast_returned_false", "p_cond_variable_broadcast", "broadcast returned FALSE");
  if (w0 >= 2) probe("cond.broadcast_with_2_waiters");
  // every task that was parked when the call started has been woken (whoever parks during the call may stay)
  int left = 0; for (size_t i = 0; i < ids.size(); i++) if (shim::task_cond_wakes(ids[i]) == wk0[i]) left++;
  if (left) violate("broadcast_left_waiters", "p_cond_variable_broadcast", "%d of %d waiters still parked after broadcast", left, w0);
}

void producer(int id, int n) {
  for (int k = 0; k < n; k++) {
    long item = id * 1000 + k + 1;
    lock_m(S->trylock_producers);
    for (;;) {
      SIM_READ(S->count);
      if (S->count < S->cap) break;
      probe("bb.producer_waited");
      wait_c(S->single_cond ? S->c1 : S->c2, S->single_cond ? S->c1num : S->c2num);
    }
    SIM_WRITE(S->slots[(S->head + S->count) % S->cap]);
    S->slots[(S->head + S->count) % S->cap] = item;
    SIM_WRITE(S->count);
    S->count++;
    S->produced_sum += item; S->produced_n++;
    if (S->notify_unlocked) { unlock_m(); if (S->single_cond) broadcast_c(S->c1, S->c1num, false); else signal_c(S->c1, S->c1num, false); }
    else { if (S->single_cond) broadcast_c(S->c1, S->c1num); else signal_c(S->c1, S->c1num); unlock_m(); }
    if (gen(3) == 0) yield_point();
  }
}
void consumer(int n) {
  for (int k = 0; k < n; k++) {
    lock_m();
    for (;;) {
      SIM_READ(S->count);
      if (S->count > 0) break;
      probe("bb.consumer_waited");
      wait_c(S->c1, S->c1num);
    }
    SIM_READ(S->slots[S->head]);
    long item = S->slots[S->head];
    S->head = (S->head + 1) % S->cap;
    SIM_WRITE(S->count);
    S->count--;
    S->consumed_sum += item; S->consumed_n++;
    if (S->notify_unlocked) { unlock_m(); if (S->single_cond) broadcast_c(S->c1, S->c1num, false); else signal_c(S->c2, S->c2num, false); }
    else { if (S->single_cond) broadcast_c(S->c1, S->c1num); else signal_c(S->c2, S->c2num); unlock_m(); }
    if (gen(3) == 0) yield_point();
  }
}

void root() {
  S = new St();
  hooks().completion_required = true;
  lib_begin();
  S->m = HX_API("p_mutex_new", 0, false, p_mutex_new());
  S->mnum = shim::last_created(shim::K_MUTEX);
  S->c1 = HX_API("p_cond_variable_new", 1, false, p_cond_variable_new());
  S->c1num = shim::last_created(shim::K_COND);
  S->c2 = HX_API("p_cond_variable_new", 2, false, p_cond_variable_new());
  S->c2num = shim::last_created(shim::K_COND);
  if (!S->m || !S->c1 || !S->c2) violate("new_returned_null", "", "constructor returned NULL");
  int tier = cfg().tier;
  uint32_t mode = gen(4);
  S->notify_unlocked = gen(3) == 0;
  S->trylock_producers = gen(4) == 0;
  { static const uint64_t durs[] = {300, 1200, 2500, 61000}; if (gen(3) == 0) { S->hold_ns = durs[gen(4)] * 1000000ULL + gen(1000) * 1000ULL; probe("cond.notifier_holds_mutex_for_simulated_time"); } }
  if (mode <= 1) {
    // bounded buffer
    int np = (int)gen_range(1, tier ? 4 : 3), nc = (int)gen_range(1, tier ? 4 : 3);
    S->cap = (int)gen_range(1, 3);
    S->single_cond = mode == 1;       // one condition variable shared by both sides, woken by broadcast
    std::vector<int> pn(np), cn(nc, 0);
    int total = 0;
    for (int i = 0; i < np; i++) { pn[i] = (int)gen_range(1, tier ? 6 : 4); total += pn[i]; }
    for (int i = 0; i < total; i++) cn[gen((uint32_t)nc)]++;
    describe("%smode=bounded_buffer%s producers=%d consumers=%d cap=%d items=%d", S->notify_unlocked ? "notify-after-unlock " : "", S->single_cond ? "(one cond, broadcast)" : "", np, nc, S->cap, total);
    for (int i = 0; i < np; i++) spawn(0, [i, n = pn[i]]() { producer(i + 1, n); });
    for (int i = 0; i < nc; i++) spawn(0, [n = cn[i]]() { consumer(n); });
    wait_all_others();
    if (S->consumed_n != S->produced_n || S->consumed_sum != S->produced_sum || S->count != 0)
      violate("items_lost_or_duplicated", "bounded_buffer", "produced %d items (sum %ld), consumed %d (sum %ld), %d left", S->produced_n, S->produced_sum, S->consumed_n, S->consumed_sum, S->count);
  } else if (mode == 2) {
    // gate: waiters wait for a flag; one task sets it and broadcasts ONCE
    int nw = (int)gen_range(1, tier ? 5 : 4);
    describe("mode=gate waiters=%d", nw);
    for (int i = 0; i < nw; i++) spawn(0, []() {
      lock_m();
      for (;;) { SIM_READ(S->flag); if (S->flag) break; wait_c(S->c1, S->c1num); }
      S->passed++;
      unlock_m();
    });
    spawn(0, []() {
      if (gen(2)) yield_point();
      lock_m();
      if (S->hold_ns) sleep_until(now_ns() + S->hold_ns);
      SIM_WRITE(S->flag);
      S->flag = 1;
      if (S->notify_unlocked) { unlock_m(); broadcast_c(S->c1, S->c1num, false); }
      else { broadcast_c(S->c1, S->c1num); unlock_m(); }
    });
    wait_all_others();
    if (S->passed != nw) violate("gate_not_passed", "gate", "%d of %d waiters passed", S->passed, nw);
  } else {
    // single waiter known to be parked when the signal is issued
    describe("mode=single_waiter");
    Task *w = spawn(0, []() {
      lock_m();
      for (;;) { SIM_READ(S->flag); if (S->flag) break; wait_c(S->c1, S->c1num); }
      unlock_m();
    });
    spawn(0, [w]() {
      // hold until the simulator sees the waiter parked on the condition variable (or finished after a spurious wake-up + flag)
      for (int spin = 0; spin < 200 && shim::cond_waiters(S->c1num) == 0 && w->state != T_FINISHED; spin++) yield_point();
      if (shim::cond_waiters(S->c1num) > 0) probe("cond.signal_to_parked_waiter");
      lock_m();
      if (S->hold_ns) sleep_until(now_ns() + S->hold_ns);
      SIM_WRITE(S->flag);
      S->flag = 1;
      signal_c(S->c1, S->c1num);
      unlock_m();
    });
    wait_all_others();
  }
  // afterwards, with nobody waiting any more: the same condition variable serves an exchange under ANOTHER mutex (legal: only
  // concurrent waits must agree on the mutex)
  if (gen(4) == 0) {
    static PMutex *m2; static int flag2;
    m2 = HX_API("p_mutex_new", 3, false, p_mutex_new()); flag2 = 0;
    if (!m2) violate("new_returned_null", "", "constructor returned NULL");
    int m2num = shim::last_created(shim::K_MUTEX);
    spawn(0, [m2num]() {
      if (!HX_API("p_mutex_lock", 3, false, p_mutex_lock(m2))) violate("lock_returned_false", "p_mutex_lock", "p_mutex_lock returned FALSE");
      for (int guard = 0; ; guard++) {
        SIM_READ(flag2);
        if (flag2) break;
        if (guard > 50) violate("wait_did_not_block", "p_cond_variable_wait", "wait with a second mutex keeps returning although the predicate is false and nobody signals");
        if (!HX_API("p_cond_variable_wait", 1, false, p_cond_variable_wait(S->c1, m2))) violate("wait_returned_false", "p_cond_variable_wait", "wait returned FALSE on valid objects (condition variable used with a second mutex after the first one)");
        if (shim::mutex_owner(m2num) != cur()->id) violate("wait_returned_without_mutex", "p_cond_variable_wait", "wait returned but the mutex is not owned by the caller");
      }
      if (!HX_API("p_mutex_unlock", 3, false, p_mutex_unlock(m2))) violate("unlock_returned_false", "p_mutex_unlock", "p_mutex_unlock returned FALSE");
    });
    spawn(0, []() {
      if (gen(2)) yield_point();
      if (!HX_API("p_mutex_lock", 3, false, p_mutex_lock(m2))) violate("lock_returned_false", "p_mutex_lock", "p_mutex_lock returned FALSE");
      SIM_WRITE(flag2); flag2 = 1;
      if (!HX_API("p_cond_variable_signal", 1, false, p_cond_variable_signal(S->c1))) violate("signal_returned_false", "p_cond_variable_signal", "signal returned FALSE");
      if (!HX_API("p_mutex_unlock", 3, false, p_mutex_unlock(m2))) violate("unlock_returned_false", "p_mutex_unlock", "p_mutex_unlock returned FALSE");
    });
    wait_all_others();
    HX_API_V("p_mutex_free", 3, false, p_mutex_free(m2));
    probe("cond.reused_with_second_mutex");
  }
  HX_API_V("p_cond_variable_free", 1, false, p_cond_variable_free(S->c1));
  HX_API_V("p_cond_variable_free", 2, false, p_cond_variable_free(S->c2));
  HX_API_V("p_mutex_free", 0, false, p_mutex_free(S->m));
  lib_end();
  delete S; S = nullptr;
}

void configure(Config &c, Rng &) {
  swarm_schedule(c, 200);
  c.step_cap = 200000;
  static const double ps[] = {0, 0, 0.02, 0.1, 0.3};
  c.p[ST_SPURIOUS] = ps[gen(5)];
}

}  // namespace

SIM_HARNESS(condvar, "C03", root, configure)
