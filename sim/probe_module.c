/* A module nobody else in the process has loaded: the library loader scenarios load and free it, and the simulated kernel
 * checks that it is really gone afterwards. */
int vp_probe_value(void) { return 42; }
