// Happens-before engine: vector clocks, per-location sync clocks, byte-accurate shadow cells, heap shadow.
// Deterministic re-implementation of what a race detector would do, usable under a serialising scheduler.
#include "sim.h"
#include "core.h"
#include "hb.h"
#include <string.h>
#include <stdio.h>
#include <unordered_map>
#include <map>

namespace sim {
namespace hb {

uintptr_t (*canon)(uintptr_t) = nullptr;

struct Cell {
  uint8_t tid, off, size, flags;   // flags: 1 = write, 2 = atomic
  uint32_t clk;
  const char *what;
};
struct Granule {
  Cell c[6];
  uint8_t n = 0, rr = 0;
};

static std::unordered_map<uintptr_t, Granule> shadow;
static std::unordered_map<uintptr_t, VC> sync;          // per atomic location release clock
static VC fence_rel[MAXT], pending_acq[MAXT];
static bool has_fence_rel[MAXT];
static VC sc_clock;
static std::map<uintptr_t, size_t> freed;                // quarantined freed blocks of this run
static std::map<uintptr_t, size_t> live;
struct Guard { uintptr_t lo, hi, base; };
static std::map<uintptr_t, Guard> guards;              // padded harness buffers: [base, base+pad) with valid [lo, hi)

void reset() {
  shadow.clear();
  sync.clear();
  freed.clear();
  live.clear();
  for (auto &g : guards) free((void *)g.second.base);
  guards.clear();
  sc_clock.clear();
  for (int i = 0; i < MAXT; i++) { fence_rel[i].clear(); pending_acq[i].clear(); has_fence_rel[i] = false; }
}

void acquire(VC &into, const VC &from) { into.join(from); }
void tick(Task *t) { t->vc.c[t->id]++; }
void release_to(VC &obj, Task *t) { obj.join(t->vc); tick(t); }
void release_store(VC &obj, Task *t) { obj = t->vc; tick(t); }

static inline bool on_own_stack(Task *t, uintptr_t a) {
  return a >= (uintptr_t)t->stack && a < (uintptr_t)t->stack + t->stack_size;
}

static void check_guard(uintptr_t a, size_t n, bool write) {
  auto it = guards.upper_bound(a + n - 1);
  if (it == guards.begin()) return;
  --it;
  const Guard &g = it->second;
  if (a + n <= g.base || a >= g.base + (g.hi - g.base) + 64) return;
  if (a < g.lo || a + n > g.hi) {
    Task *t = cur();
    violate("caller_buffer_overrun", t && t->api ? t->api : "", "%s of %zu bytes at offset %ld of a caller buffer of %zu bytes", write ? "write" : "read", n, (long)(a - g.lo), (size_t)(g.hi - g.lo));
  }
}

void *guard_malloc(size_t n) {
  size_t pad = 64;
  char *base = (char *)malloc(n + 2 * pad);
  memset(base, 0xCB, n + 2 * pad);
  Guard g{(uintptr_t)base + pad, (uintptr_t)base + pad + n, (uintptr_t)base};
  guards[(uintptr_t)base] = g;
  return base + pad;
}
void guard_free(void *p) {
  if (!p) return;
  uintptr_t base = (uintptr_t)p - 64;
  auto it = guards.find(base);
  if (it == guards.end()) return;
  forget_range((void *)base, it->second.hi - base + 64);
  // the block is kept until the end of the run (no address reuse inside a run)
  it->second.lo = it->second.hi = 0;
}

static void check_heap(uintptr_t a, size_t n, bool write) {
  if (!guards.empty()) check_guard(a, n, write);
  if (freed.empty()) return;
  auto it = freed.upper_bound(a + n - 1);
  if (it == freed.begin()) return;
  --it;
  if (it->first + it->second > a) {
    Task *t = cur();
    violate("use_after_free", t && t->api ? t->api : "", "%s of %zu bytes inside a block freed earlier in this run (offset %zu of %zu)",
            write ? "write" : "read", n, (size_t)(a - it->first), it->second);
  }
}

static void access(uintptr_t a0, size_t n, bool write, bool atomic, const char *what) {
  Task *t = cur();
  if (!t || !R || R->in_sim) return;
  if (on_own_stack(t, a0)) return;
  check_heap(a0, n, write);
  uintptr_t a = canon ? canon(a0) : a0;
  uint32_t myclk = t->vc.c[t->id];
  while (n > 0) {
    uintptr_t g = a & ~(uintptr_t)7;
    uint8_t off = (uint8_t)(a - g);
    uint8_t sz = (uint8_t)((size_t)(8 - off) < n ? (size_t)(8 - off) : n);
    Granule &G = shadow[g];
    int mine = -1;
    for (int i = 0; i < G.n; i++) {
      Cell &c = G.c[i];
      bool overlap = c.off < off + sz && off < c.off + c.size;
      if (!overlap) continue;
      if (c.tid == t->id) { if (c.off == off && c.size == sz) mine = i; continue; }
      bool cw = c.flags & 1, ca = c.flags & 2;
      if (!(cw || write)) continue;
      if (ca && atomic) continue;
      if (c.clk <= t->vc.c[c.tid]) continue;          // ordered by happens-before
      char key[200];
      snprintf(key, sizeof key, "%s", t->api ? t->api : (what ? what : ""));
      violate("data_race", key, "unordered %s%s by t%d conflicts with earlier %s%s by t%d (%s / %s), %u bytes",
              atomic ? "atomic " : "", write ? "write" : "read", t->id, ca ? "atomic " : "", cw ? "write" : "read", c.tid,
              what ? what : "library memory", c.what ? c.what : "library memory", sz);
    }
    uint8_t fl = (write ? 1 : 0) | (atomic ? 2 : 0);
    if (mine >= 0) {
      Cell &c = G.c[mine];
      // keep the stronger of the two descriptions for the same epoch, else overwrite
      if (c.clk == myclk) { c.flags = (uint8_t)(((c.flags | fl) & 1) | (c.flags & fl & 2)); }
      else { c.flags = fl; c.clk = myclk; }
      c.what = what;
    } else {
      int slot;
      if (G.n < 6) slot = G.n++;
      else { slot = G.rr; G.rr = (uint8_t)((G.rr + 1) % 6); }
      G.c[slot] = Cell{(uint8_t)t->id, off, sz, fl, myclk, what};
    }
    a += sz; n -= sz;
  }
}

void plain_read(const void *addr, size_t n, const char *what) { access((uintptr_t)addr, n, false, false, what); }
void plain_write(const void *addr, size_t n, const char *what) { access((uintptr_t)addr, n, true, false, what); }
void atomic_access(const void *addr, size_t n, bool write) { access((uintptr_t)addr, n, write, true, nullptr); }

void forget_range(const void *addr, size_t n) {
  uintptr_t a = (uintptr_t)addr;
  if (canon) a = canon(a);
  for (uintptr_t g = a & ~(uintptr_t)7; g < a + n; g += 8) { shadow.erase(g); sync.erase(g); }
}

void heap_alloc(const void *p, size_t n) { live[(uintptr_t)p] = n; }
void heap_free(const void *p, size_t n) {
  live.erase((uintptr_t)p);
  freed[(uintptr_t)p] = n ? n : 1;
}
bool heap_is_freed(const void *p, size_t n) {
  uintptr_t a = (uintptr_t)p;
  auto it = freed.upper_bound(a + (n ? n - 1 : 0));
  if (it == freed.begin()) return false;
  --it;
  return it->first + it->second > a;
}

// ---- atomic location protocol (memory orders: 0 relaxed 1 consume 2 acquire 3 release 4 acq_rel 5 seq_cst)
static inline bool is_acq(int mo) { return mo == 1 || mo == 2 || mo == 4 || mo == 5; }
static inline bool is_rel(int mo) { return mo == 3 || mo == 4 || mo == 5; }

static uintptr_t key_of(const void *addr) { uintptr_t a = (uintptr_t)addr; return canon ? canon(a) : a; }

void atomic_load(const void *addr, int mo) {
  Task *t = cur(); if (!t) return;
  auto it = sync.find(key_of(addr));
  if (it == sync.end()) return;
  if (is_acq(mo)) t->vc.join(it->second);
  else pending_acq[t->id].join(it->second);
}
void atomic_store(const void *addr, int mo) {
  Task *t = cur(); if (!t) return;
  VC &L = sync[key_of(addr)];
  if (is_rel(mo)) { L = t->vc; tick(t); }
  else if (has_fence_rel[t->id]) { L = fence_rel[t->id]; }
  else L.clear();
}
void atomic_rmw(const void *addr, int mo) {
  Task *t = cur(); if (!t) return;
  VC &L = sync[key_of(addr)];
  if (is_acq(mo)) t->vc.join(L); else pending_acq[t->id].join(L);
  if (is_rel(mo)) { L.join(t->vc); tick(t); }
  else if (has_fence_rel[t->id]) L.join(fence_rel[t->id]);
}
void fence(int mo) {
  Task *t = cur(); if (!t) return;
  if (is_acq(mo)) { t->vc.join(pending_acq[t->id]); }
  if (mo == 5) { t->vc.join(sc_clock); sc_clock.join(t->vc); }
  if (is_rel(mo)) { fence_rel[t->id] = t->vc; has_fence_rel[t->id] = true; tick(t); }
}

}  // namespace hb
}  // namespace sim
