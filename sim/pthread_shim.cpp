// Simulated pthread layer. The library's undefined references pthread_X are retargeted to simk_pthread_X.
#include "sim.h"
#include "core.h"
#include "shim.h"
#include <errno.h>
#include <pthread.h>
#include <sched.h>
#include <string.h>
#include <stdio.h>
#include <map>
#include <vector>
#include <algorithm>

using namespace sim;

namespace {

struct SMutex { int num; int owner = -1; VC vc; bool destroyed = false; };
struct SCond { int num; std::vector<int> waiters; bool destroyed = false;  uint64_t wakes = 0; };
struct SRw { int num; std::vector<int> readers; int writer = -1; int writers_waiting = 0; VC vc_w, vc_r; bool destroyed = false; };
struct SKey { void (*dtor)(void *); bool alive; };

std::map<uintptr_t, SMutex *> mutexes;   // address -> current object (objects live until run end)
std::map<uintptr_t, SCond *> conds;
std::map<uintptr_t, SRw *> rws;
std::vector<SKey> keys;
std::vector<SMutex *> mutex_by_num;
std::vector<SCond *> cond_by_num;
std::vector<SRw *> rw_by_num;
uint64_t g_task_cond_wakes[MAXT];          // per task: how often a signal / broadcast (or a spurious wake-up) took it out of a condition wait
std::vector<int> thread_tasks;             // simulated thread number -> task id
// Native thread ids. Like glibc (which recycles the stack, and with it the pthread_t value, of a thread that was joined or that
// finished detached) the most recently released id is handed to the next thread created: a stale id names a LIVE other thread.
std::vector<int> slot_task;                // native id slot -> task id, -1 = free
std::vector<int> free_slots;               // released slots, most recent last
int last_created_by[MAXT][shim::K_KINDS];
int created[shim::K_KINDS];
uint64_t n_dtor_calls = 0;

const char *apiname() { Task *t = cur(); return t && t->api ? t->api : ""; }

SMutex *get_mutex(pthread_mutex_t *m, const char *op) {
  auto it = mutexes.find((uintptr_t)m);
  if (it == mutexes.end()) {
    // statically initialised mutex: create lazily
    SMutex *s = new SMutex(); s->num = (int)mutex_by_num.size(); s->vc.clear();
    mutexes[(uintptr_t)m] = s;
    mutex_by_num.push_back(s);
    created[shim::K_MUTEX]++;
    return s;
  }
  if (it->second->destroyed) violate("sync_object_misuse", apiname(), "%s on a destroyed mutex #%d", op, it->second->num);
  return it->second;
}
SCond *get_cond(pthread_cond_t *c, const char *op) {
  auto it = conds.find((uintptr_t)c);
  if (it == conds.end()) {
    SCond *s = new SCond(); s->num = (int)cond_by_num.size();
    conds[(uintptr_t)c] = s;
    cond_by_num.push_back(s);
    created[shim::K_COND]++;
    return s;
  }
  if (it->second->destroyed) violate("sync_object_misuse", apiname(), "%s on a destroyed condition variable #%d", op, it->second->num);
  return it->second;
}
SRw *get_rw(pthread_rwlock_t *l, const char *op) {
  auto it = rws.find((uintptr_t)l);
  if (it == rws.end()) {
    SRw *s = new SRw(); s->num = (int)rw_by_num.size(); s->vc_w.clear(); s->vc_r.clear();
    rws[(uintptr_t)l] = s;
    rw_by_num.push_back(s);
    created[shim::K_RWLOCK]++;
    return s;
  }
  if (it->second->destroyed) violate("sync_object_misuse", apiname(), "%s on a destroyed rwlock #%d", op, it->second->num);
  return it->second;
}

void wake_blocked_on(BlockKind k, int num) {
  for (int i = 0; i < ntasks(); i++) { Task *t = task(i); if (t->state == T_BLOCKED && t->bkind == k && t->bobj == num) wake(t); }
}

// F2: at synchronisation events a parked condition waiter may wake up spuriously
void maybe_spurious() {
  double p = cfg().p[ST_SPURIOUS];
  if (p <= 0) return;
  std::vector<SCond *> cs;
  for (SCond *c : cond_by_num) if (!c->destroyed && !c->waiters.empty()) cs.push_back(c);
  if (cs.empty()) return;
  if (!flip(ST_SPURIOUS, p)) return;
  SCond *c = cs[choose(ST_WAKE, (uint32_t)cs.size())];
  uint32_t i = choose(ST_WAKE, (uint32_t)c->waiters.size());
  int tid = c->waiters[i];
  c->waiters.erase(c->waiters.begin() + i);
  g_task_cond_wakes[tid]++; c->wakes++;          // a waiter that left for any reason counts: the oracles ask whether anybody was released
  ev("spurious_wake", c->num, tid);
  probe("cond.spurious_wakeup");
  wake(task(tid));
}

void mutex_acquire(SMutex *M) {
  Task *t = cur();
  while (M->owner != -1) {
    if (M->owner == t->id) probe("mutex.relock_by_owner");
    block(B_MUTEX, M->num);
  }
  M->owner = t->id;
  t->vc.join(M->vc);
}
void mutex_release(SMutex *M) {
  Task *t = cur();
  M->owner = -1;
  M->vc = t->vc;
  hb::tick(t);
  wake_blocked_on(B_MUTEX, M->num);
}

}  // namespace

namespace sim {
namespace shim {
int fail_create_kth = 0, fail_key_create_kth = 0, fail_mutex_lock_kth = 0, fail_mutex_trylock_kth = 0, fail_setname_kth = 0;
int mutex_lock_failures[MAXT] = {0};
int last_created(int kind) { Task *t = cur(); return t ? last_created_by[t->id][kind] : -1; }
int created_count(int kind) { return created[kind]; }
int live_count(int kind) {
  int n = 0;
  if (kind == K_MUTEX) { for (auto *m : mutex_by_num) if (!m->destroyed) n++; }
  else if (kind == K_COND) { for (auto *c : cond_by_num) if (!c->destroyed) n++; }
  else if (kind == K_RWLOCK) { for (auto *r : rw_by_num) if (!r->destroyed) n++; }
  else if (kind == K_KEY) { for (auto &k : keys) if (k.alive) n++; }
  return n;
}
int mutex_owner(int num) { return num >= 0 && num < (int)mutex_by_num.size() ? mutex_by_num[num]->owner : -1; }
int mutex_of_addr(const void *a) { auto it = mutexes.find((uintptr_t)a); return it == mutexes.end() ? -1 : it->second->num; }
int cond_waiters(int num) { return num >= 0 && num < (int)cond_by_num.size() ? (int)cond_by_num[num]->waiters.size() : 0; }
std::vector<int> cond_waiter_ids(int num) { return num >= 0 && num < (int)cond_by_num.size() ? cond_by_num[num]->waiters : std::vector<int>(); }
uint64_t cond_wakes(int num) { return num >= 0 && num < (int)cond_by_num.size() ? cond_by_num[num]->wakes : 0; }
uint64_t task_cond_wakes(int tid) { return tid >= 0 && tid < MAXT ? g_task_cond_wakes[tid] : 0; }
int cond_of_addr(const void *a) { auto it = conds.find((uintptr_t)a); return it == conds.end() ? -1 : it->second->num; }
int rw_readers(int num) { return (int)rw_by_num[num]->readers.size(); }
int rw_writer(int num) { return rw_by_num[num]->writer; }
int thread_task(int num) { return num >= 0 && num < (int)thread_tasks.size() ? thread_tasks[num] : -1; }
uint64_t dtor_calls() { return n_dtor_calls; }
int keys_live() { return live_count(K_KEY); }
}  // namespace shim

void shim_run_begin() {
  for (auto *x : mutex_by_num) delete x;
  for (auto *x : cond_by_num) delete x;
  for (auto *x : rw_by_num) delete x;
  mutexes.clear(); conds.clear(); rws.clear(); keys.clear();
  mutex_by_num.clear(); cond_by_num.clear(); rw_by_num.clear(); thread_tasks.clear(); slot_task.clear(); free_slots.clear();
  for (int i = 0; i < MAXT; i++) g_task_cond_wakes[i] = 0;
  memset(last_created_by, -1, sizeof last_created_by);
  memset(created, 0, sizeof created);
  n_dtor_calls = 0;
  shim::fail_create_kth = 0; shim::fail_key_create_kth = 0; shim::fail_mutex_lock_kth = 0; shim::fail_mutex_trylock_kth = 0; shim::fail_setname_kth = 0;
  for (int i = 0; i < MAXT; i++) shim::mutex_lock_failures[i] = 0;
}
void shim_run_end() {}

void thread_exit_hook(Task *t) {
  // POSIX: run destructors for non-NULL values, up to PTHREAD_DESTRUCTOR_ITERATIONS rounds
  for (int round = 0; round < 4; round++) {
    bool any = false;
    for (size_t k = 0; k < keys.size(); k++) {
      if (!keys[k].alive) continue;
      auto it = t->tls.find((int)k);
      if (it == t->tls.end() || it->second == nullptr) continue;
      void *v = it->second;
      it->second = nullptr;
      if (keys[k].dtor) { any = true; n_dtor_calls++; ev("tls_dtor", (int64_t)k); keys[k].dtor(v); }
    }
    if (!any) break;
  }
  ev("thread_exit", t->id);
  // joiners are woken after the state change (done by caller); mark here for B_JOIN waiters
  for (int i = 0; i < ntasks(); i++) { Task *o = task(i); if (o->state == T_BLOCKED && o->bkind == B_JOIN && o->bobj == t->id) wake(o); }
}
}  // namespace sim

extern "C" {

// ---------------------------------------------------------------- mutex
int simk_pthread_mutex_init(pthread_mutex_t *m, const pthread_mutexattr_t *) {
  yield_point();
  auto it = mutexes.find((uintptr_t)m);
  if (it != mutexes.end() && !it->second->destroyed) violate("sync_object_misuse", apiname(), "pthread_mutex_init on a live mutex");
  SMutex *s = new SMutex(); s->num = (int)mutex_by_num.size(); s->vc.clear();
  mutexes[(uintptr_t)m] = s;
  mutex_by_num.push_back(s);
  created[shim::K_MUTEX]++;
  if (cur()) last_created_by[cur()->id][shim::K_MUTEX] = s->num;
  ev("mutex_init", s->num);
  return 0;
}
int simk_pthread_mutex_destroy(pthread_mutex_t *m) {
  yield_point();
  SMutex *M = get_mutex(m, "pthread_mutex_destroy");
  if (M->owner != -1) { probe("mutex.destroy_while_locked"); return EBUSY; }
  for (int i = 0; i < ntasks(); i++) { Task *t = task(i); if (t->state == T_BLOCKED && t->bkind == B_MUTEX && t->bobj == M->num) return EBUSY; }
  M->destroyed = true;
  ev("mutex_destroy", M->num);
  return 0;
}
int simk_pthread_mutex_lock(pthread_mutex_t *m) {
  yield_point();
  if (!cur()) return 0;
  SMutex *M = get_mutex(m, "pthread_mutex_lock");
  if (shim::fail_mutex_lock_kth > 0 && --shim::fail_mutex_lock_kth == 0) { fired(ST_SYSCALL); shim::mutex_lock_failures[cur()->id]++; ev("mutex_lock_fail", M->num); return EAGAIN; }
  maybe_spurious();
  mutex_acquire(M);
  ev("mutex_lock", M->num);
  return 0;
}
static uint64_t abs_ns(const struct timespec *ts) { return (uint64_t)ts->tv_sec * 1000000000ULL + (uint64_t)ts->tv_nsec; }
// timed variants (one simulated clock serves every clock id): not used by the library today
int simk_pthread_mutex_timedlock(pthread_mutex_t *m, const struct timespec *abs) {
  yield_point();
  if (!cur()) return 0;
  SMutex *M = get_mutex(m, "pthread_mutex_timedlock");
  if (shim::fail_mutex_lock_kth > 0 && --shim::fail_mutex_lock_kth == 0) { fired(ST_SYSCALL); shim::mutex_lock_failures[cur()->id]++; ev("mutex_lock_fail", M->num); return EAGAIN; }
  maybe_spurious();
  Task *t = cur();
  if (!abs || abs->tv_nsec < 0 || abs->tv_nsec > 999999999L) { if (M->owner == -1) { mutex_acquire(M); return 0; } return EINVAL; }
  uint64_t deadline = abs_ns(abs);
  while (M->owner != -1) {
    if (now_ns() >= deadline) { ev("mutex_timedlock_timeout", M->num); return ETIMEDOUT; }
    int id = t->id, num = M->num;
    add_timer(deadline, [id, num]() { Task *x = task(id); if (x && x->state == T_BLOCKED && x->bkind == B_MUTEX && x->bobj == num) wake(x); });
    block(B_MUTEX, M->num);
  }
  M->owner = t->id;
  t->vc.join(M->vc);
  ev("mutex_lock", M->num);
  return 0;
}
int simk_pthread_mutex_trylock(pthread_mutex_t *m) {
  yield_point();
  if (!cur()) return 0;
  SMutex *M = get_mutex(m, "pthread_mutex_trylock");
  if (shim::fail_mutex_trylock_kth > 0 && --shim::fail_mutex_trylock_kth == 0) { fired(ST_SYSCALL); shim::mutex_lock_failures[cur()->id]++; ev("mutex_trylock_fail", M->num); return EAGAIN; }
  maybe_spurious();
  if (M->owner != -1) { ev("mutex_trylock_busy", M->num); return EBUSY; }
  M->owner = cur()->id;
  cur()->vc.join(M->vc);
  ev("mutex_trylock", M->num);
  return 0;
}
int simk_pthread_mutex_unlock(pthread_mutex_t *m) {
  yield_point();
  if (!cur()) return 0;
  SMutex *M = get_mutex(m, "pthread_mutex_unlock");
  maybe_spurious();
  if (M->owner != cur()->id) {
    // unlocking a mutex one does not hold is undefined for a default mutex: flag it
    violate("sync_object_misuse", apiname(), "pthread_mutex_unlock of mutex #%d by t%d which does not hold it (owner %d)", M->num, cur()->id, M->owner);
  }
  mutex_release(M);
  ev("mutex_unlock", M->num);
  return 0;
}

// ---------------------------------------------------------------- condition variable
int simk_pthread_cond_init(pthread_cond_t *c, const pthread_condattr_t *) {
  yield_point();
  auto it = conds.find((uintptr_t)c);
  if (it != conds.end() && !it->second->destroyed) violate("sync_object_misuse", apiname(), "pthread_cond_init on a live condition variable");
  SCond *s = new SCond(); s->num = (int)cond_by_num.size();
  conds[(uintptr_t)c] = s;
  cond_by_num.push_back(s);
  created[shim::K_COND]++;
  if (cur()) last_created_by[cur()->id][shim::K_COND] = s->num;
  ev("cond_init", s->num);
  return 0;
}
int simk_pthread_cond_destroy(pthread_cond_t *c) {
  yield_point();
  SCond *C = get_cond(c, "pthread_cond_destroy");
  if (!C->waiters.empty()) return EBUSY;
  C->destroyed = true;
  ev("cond_destroy", C->num);
  return 0;
}
int simk_pthread_cond_wait(pthread_cond_t *c, pthread_mutex_t *m) {
  yield_point();
  Task *t = cur();
  if (!t) return 0;
  SCond *C = get_cond(c, "pthread_cond_wait");
  auto mit = mutexes.find((uintptr_t)m);
  if (mit == mutexes.end() || mit->second->destroyed)
    violate("cond_wait_bad_mutex", apiname(), "pthread_cond_wait given an address that is not a live mutex");
  SMutex *M = mit->second;
  if (M->owner != t->id)
    violate("cond_wait_bad_mutex", apiname(), "pthread_cond_wait with mutex #%d not held by the caller t%d (owner %d)", M->num, t->id, M->owner);
  maybe_spurious();
  // atomically: release the mutex and join the waiter set
  mutex_release(M);
  ev("cond_wait", C->num, M->num);
  if (cfg().p[ST_SPURIOUS] > 0 && flip(ST_SPURIOUS, cfg().p[ST_SPURIOUS] * 0.5)) {
    probe("cond.spurious_immediate");
    yield_point();
  } else {
    C->waiters.push_back(t->id);
    block(B_COND, C->num);
  }
  mutex_acquire(M);
  ev("cond_wake", C->num, M->num);
  return 0;
}
int simk_pthread_cond_timedwait(pthread_cond_t *c, pthread_mutex_t *m, const struct timespec *abs) {
  yield_point();
  Task *t = cur();
  if (!t) return 0;
  SCond *C = get_cond(c, "pthread_cond_timedwait");
  auto mit = mutexes.find((uintptr_t)m);
  if (mit == mutexes.end() || mit->second->destroyed)
    violate("cond_wait_bad_mutex", apiname(), "pthread_cond_timedwait given an address that is not a live mutex");
  SMutex *M = mit->second;
  if (M->owner != t->id)
    violate("cond_wait_bad_mutex", apiname(), "pthread_cond_timedwait with mutex #%d not held by the caller t%d (owner %d)", M->num, t->id, M->owner);
  if (!abs || abs->tv_nsec < 0 || abs->tv_nsec > 999999999L) return EINVAL;
  uint64_t deadline = abs_ns(abs);
  maybe_spurious();
  mutex_release(M);
  ev("cond_wait", C->num, M->num);
  int rc = 0;
  if (now_ns() >= deadline) rc = ETIMEDOUT;
  else {
    C->waiters.push_back(t->id);
    int id = t->id; SCond *cc = C;
    add_timer(deadline, [id, cc]() {
      Task *x = task(id);
      for (size_t i = 0; i < cc->waiters.size(); i++) if (cc->waiters[i] == id) { cc->waiters.erase(cc->waiters.begin() + i); if (x && x->state == T_BLOCKED && x->bkind == B_COND) { x->timed_out = true; wake(x); } break; }
    });
    t->timed_out = false;
    block(B_COND, C->num);
    if (t->timed_out) { rc = ETIMEDOUT; t->timed_out = false; }
  }
  mutex_acquire(M);
  ev("cond_wake", C->num, M->num);
  return rc;
}
int simk_pthread_cond_signal(pthread_cond_t *c) {
  yield_point();
  if (!cur()) return 0;
  SCond *C = get_cond(c, "pthread_cond_signal");
  maybe_spurious();
  ev("cond_signal", C->num, (int64_t)C->waiters.size());
  if (!C->waiters.empty()) {
    uint32_t i = choose(ST_WAKE, (uint32_t)C->waiters.size());
    int tid = C->waiters[i];
    C->waiters.erase(C->waiters.begin() + i);
    C->wakes++; g_task_cond_wakes[tid]++;
    wake(task(tid));
    // POSIX: "at least one" — occasionally release one more
    if (!C->waiters.empty() && cfg().p[ST_SPURIOUS] > 0 && flip(ST_SPURIOUS, cfg().p[ST_SPURIOUS])) {
      uint32_t j = choose(ST_WAKE, (uint32_t)C->waiters.size());
      int t2 = C->waiters[j];
      C->waiters.erase(C->waiters.begin() + j);
      probe("cond.signal_woke_two");
      C->wakes++; g_task_cond_wakes[t2]++;
      wake(task(t2));
    }
  } else probe("cond.signal_no_waiter");
  return 0;
}
int simk_pthread_cond_broadcast(pthread_cond_t *c) {
  yield_point();
  if (!cur()) return 0;
  SCond *C = get_cond(c, "pthread_cond_broadcast");
  maybe_spurious();
  ev("cond_broadcast", C->num, (int64_t)C->waiters.size());
  if (C->waiters.size() >= 2) probe("cond.broadcast_woke_many");
  for (int tid : C->waiters) { C->wakes++; g_task_cond_wakes[tid]++; wake(task(tid)); }
  C->waiters.clear();
  return 0;
}

// ---------------------------------------------------------------- rwlock (native model)
int simk_pthread_rwlock_init(pthread_rwlock_t *l, const pthread_rwlockattr_t *) {
  yield_point();
  auto it = rws.find((uintptr_t)l);
  if (it != rws.end() && !it->second->destroyed) violate("sync_object_misuse", apiname(), "pthread_rwlock_init on a live rwlock");
  SRw *s = new SRw(); s->num = (int)rw_by_num.size(); s->vc_w.clear(); s->vc_r.clear();
  rws[(uintptr_t)l] = s;
  rw_by_num.push_back(s);
  created[shim::K_RWLOCK]++;
  if (cur()) last_created_by[cur()->id][shim::K_RWLOCK] = s->num;
  ev("rw_init", s->num);
  return 0;
}
int simk_pthread_rwlock_destroy(pthread_rwlock_t *l) {
  yield_point();
  SRw *L = get_rw(l, "pthread_rwlock_destroy");
  if (L->writer != -1 || !L->readers.empty()) return EBUSY;
  L->destroyed = true;
  ev("rw_destroy", L->num);
  return 0;
}
static bool rd_grantable(SRw *L) {
  if (L->writer != -1) return false;
  if (L->writers_waiting > 0 && cfg().p[ST_RWPREF] > 0 && flip(ST_RWPREF, cfg().p[ST_RWPREF])) {
    probe("rw.native_writer_preferred");
    return false;
  }
  return true;
}
int simk_pthread_rwlock_rdlock(pthread_rwlock_t *l) {
  yield_point();
  Task *t = cur(); if (!t) return 0;
  SRw *L = get_rw(l, "pthread_rwlock_rdlock");
  while (!rd_grantable(L)) block(B_RWLOCK, L->num);
  L->readers.push_back(t->id);
  t->vc.join(L->vc_w);
  ev("rw_rdlock", L->num);
  return 0;
}
int simk_pthread_rwlock_tryrdlock(pthread_rwlock_t *l) {
  yield_point();
  Task *t = cur(); if (!t) return 0;
  SRw *L = get_rw(l, "pthread_rwlock_tryrdlock");
  if (L->writer != -1) { ev("rw_tryrd_busy", L->num); return EBUSY; }
  L->readers.push_back(t->id);
  t->vc.join(L->vc_w);
  ev("rw_tryrdlock", L->num);
  return 0;
}
int simk_pthread_rwlock_wrlock(pthread_rwlock_t *l) {
  yield_point();
  Task *t = cur(); if (!t) return 0;
  SRw *L = get_rw(l, "pthread_rwlock_wrlock");
  L->writers_waiting++;
  while (L->writer != -1 || !L->readers.empty()) block(B_RWLOCK, L->num);
  L->writers_waiting--;
  L->writer = t->id;
  t->vc.join(L->vc_w); t->vc.join(L->vc_r);
  ev("rw_wrlock", L->num);
  return 0;
}
int simk_pthread_rwlock_trywrlock(pthread_rwlock_t *l) {
  yield_point();
  Task *t = cur(); if (!t) return 0;
  SRw *L = get_rw(l, "pthread_rwlock_trywrlock");
  if (L->writer != -1 || !L->readers.empty()) { ev("rw_trywr_busy", L->num); return EBUSY; }
  L->writer = t->id;
  t->vc.join(L->vc_w); t->vc.join(L->vc_r);
  ev("rw_trywrlock", L->num);
  return 0;
}
int simk_pthread_rwlock_unlock(pthread_rwlock_t *l) {
  yield_point();
  Task *t = cur(); if (!t) return 0;
  SRw *L = get_rw(l, "pthread_rwlock_unlock");
  if (L->writer == t->id) {
    L->writer = -1;
    L->vc_w = t->vc; L->vc_r.clear();
    hb::tick(t);
  } else {
    auto it = std::find(L->readers.begin(), L->readers.end(), t->id);
    if (it == L->readers.end())
      violate("sync_object_misuse", apiname(), "pthread_rwlock_unlock of rwlock #%d by t%d which holds it in no mode", L->num, t->id);
    L->readers.erase(it);
    L->vc_r.join(t->vc);
    hb::tick(t);
  }
  ev("rw_unlock", L->num);
  wake_blocked_on(B_RWLOCK, L->num);
  return 0;
}


// ---------------------------------------------------------------- native thread ids
static int slot_alloc(Task *t) {
  int s;
  if (!free_slots.empty()) { s = free_slots.back(); free_slots.pop_back(); probe("thread.native_id_reused"); }
  else { s = (int)slot_task.size(); slot_task.push_back(-1); }
  slot_task[s] = t->id; t->native = s;
  return s;
}
static void slot_release(Task *t) {
  if (t->native < 0 || t->native >= (int)slot_task.size() || slot_task[t->native] != t->id) return;
  slot_task[t->native] = -1; free_slots.push_back(t->native);
}
// detached threads give their id back when they are gone
static void reap_detached() {
  for (int id : thread_tasks) { Task *t = task(id); if (t && t->detached && (t->state == T_FINISHED || t->state == T_DEAD)) slot_release(t); }
}
static Task *thread_of(pthread_t th) {
  int s = (int)(uintptr_t)th - 1;
  if (s < 0 || s >= (int)slot_task.size() || slot_task[s] < 0) return nullptr;
  return task(slot_task[s]);
}
static pthread_t id_of(Task *t) { if (t->native < 0) slot_alloc(t); return (pthread_t)(uintptr_t)(t->native + 1); }

// ---------------------------------------------------------------- threads
int simk_pthread_create(pthread_t *th, const pthread_attr_t *attr, void *(*fn)(void *), void *arg) {
  // The library holds its creation spinlock across this call. In flavour A the spinlock is real machine code without
  // scheduling points, so another new thread entering its proxy here would spin for ever: no scheduling point in A.
  if (g_flavour_tsan) yield_point();
  Task *c = cur();
  if (!c) infra_error("pthread_create outside a task");
  if (shim::fail_create_kth > 0 && --shim::fail_create_kth == 0) { fired(ST_SYSCALL); ev("thread_create_fail"); return EAGAIN; }
  int detach = PTHREAD_CREATE_JOINABLE;
  if (attr) pthread_attr_getdetachstate(attr, &detach);
  int num = (int)thread_tasks.size();
  reap_detached();
  Task *t = spawn(c->proc, [fn, arg]() { Task *me = cur(); me->retval = fn(arg); });
  t->is_thread = true; t->lib_thread = true;
  t->detached = detach == PTHREAD_CREATE_DETACHED;
  slot_alloc(t);
  thread_tasks.push_back(t->id);
  created[shim::K_THREAD]++;
  last_created_by[c->id][shim::K_THREAD] = num;
  *th = id_of(t);
  ev("thread_create", t->id, t->detached);
  return 0;
}
int simk_pthread_join(pthread_t th, void **ret) {
  yield_point();
  Task *c = cur();
  Task *t = thread_of(th);
  if (!t || !t->is_thread) return ESRCH;
  if (t->detached || t->joined) { probe("thread.join_invalid"); return EINVAL; }
  if (t == c) return EDEADLK;
  while (t->state != T_FINISHED && t->state != T_DEAD) {
    block(B_JOIN, t->id);
    if (t->detached) { probe("thread.detached_while_joined"); return EINVAL; }
  }
  t->joined = true;
  slot_release(t);
  c->vc.join(t->vc);
  if (ret) *ret = t->retval;
  ev("thread_join", t->id);
  return 0;
}
void simk_pthread_exit(void *ret) {
  Task *t = cur();
  if (!t) infra_error("pthread_exit outside a task");
  t->retval = ret;
  ev("pthread_exit", t->id);
  exit_task();
}
pthread_t simk_pthread_self(void) {
  Task *t = cur();
  return t ? id_of(t) : (pthread_t)0;
}
int simk_pthread_setname_np(pthread_t th, const char *name) {
  yield_point();
  Task *t = thread_of(th);
  if (!t) return ESRCH;
  if (strlen(name) > 15) return ERANGE;
  if (t->state == T_FINISHED || t->state == T_DEAD) return ESRCH;
  if (shim::fail_setname_kth > 0 && --shim::fail_setname_kth == 0) { fired(ST_SYSCALL); ev("thread_setname_fail", t->id); return EPERM; }
  ev("thread_setname", t->id);
  return 0;
}
int simk_pthread_getschedparam(pthread_t th, int *policy, struct sched_param *sp) {
  Task *t = thread_of(th);
  if (!t) return ESRCH;
  *policy = SCHED_OTHER; memset(sp, 0, sizeof *sp);
  return 0;
}
int simk_pthread_setschedparam(pthread_t th, int, const struct sched_param *) {
  return thread_of(th) ? 0 : ESRCH;
}
}  // extern "C"
namespace sim { namespace shim {
int detach_native(pthread_t th) {
  yield_point();
  Task *t = thread_of(th);
  if (!t || !t->is_thread) return ESRCH;
  if (t->detached || t->joined) return EINVAL;
  t->detached = true;
  ev("thread_detach", t->id);
  // somebody blocked in pthread_join on this thread now waits on a detached thread: glibc answers EINVAL
  for (int i = 0; i < ntasks(); i++) { Task *w = task(i); if (w->state == T_BLOCKED && w->bkind == B_JOIN && w->bobj == t->id) wake(w); }
  if (t->state == T_FINISHED || t->state == T_DEAD) slot_release(t);
  return 0;
} } }
extern "C" {
int simk_sched_yield(void) { if (cur()) cur()->yielded = true; yield_point(); return 0; }

// ---------------------------------------------------------------- TLS keys
int simk_pthread_key_create(pthread_key_t *key, void (*dtor)(void *)) {
  yield_point();
  if (shim::fail_key_create_kth > 0 && --shim::fail_key_create_kth == 0) { fired(ST_SYSCALL); return EAGAIN; }
  if (keys.size() >= 1024) return EAGAIN;
  keys.push_back(SKey{dtor, true});
  *key = (pthread_key_t)(keys.size() - 1);
  created[shim::K_KEY]++;
  if (cur()) last_created_by[cur()->id][shim::K_KEY] = (int)*key;
  ev("key_create", (int64_t)*key);
  return 0;
}
int simk_pthread_key_delete(pthread_key_t key) {
  yield_point();
  if (key >= keys.size() || !keys[key].alive) return EINVAL;
  keys[key].alive = false;
  ev("key_delete", (int64_t)key);
  probe("tls.key_deleted");
  return 0;
}
void *simk_pthread_getspecific(pthread_key_t key) {
  Task *t = cur();
  if (!t) return nullptr;
  if (key >= keys.size() || !keys[key].alive) {
    violate("tls_key_misuse", apiname(), "pthread_getspecific with a key that is not live (%u)", (unsigned)key);
  }
  auto it = t->tls.find((int)key);
  return it == t->tls.end() ? nullptr : it->second;
}
int simk_pthread_setspecific(pthread_key_t key, const void *v) {
  Task *t = cur();
  if (!t) return 0;
  if (key >= keys.size() || !keys[key].alive) {
    violate("tls_key_misuse", apiname(), "pthread_setspecific with a key that is not live (%u)", (unsigned)key);
  }
  t->tls[(int)key] = (void *)v;
  return 0;
}

}  // extern "C"
