// Entry points the library does not call today. They are modelled (thin layers over the existing simulated calls) so that
// a change to the library which starts using one of them is judged on its behaviour instead of failing the build with
// "unmodelled external symbol".
#include "kernel_int.h"
#include "shim.h"
#include <dirent.h>
#include <errno.h>
#include <fcntl.h>
#include <pthread.h>
#include <signal.h>
#include <stdarg.h>
#include <stdio.h>
#include <string.h>
#include <sys/socket.h>
#include <time.h>
#include <unistd.h>

using namespace sim;
using namespace sim::kern;

extern "C" {

int simk_clock_nanosleep(clockid_t, int, const struct timespec *, struct timespec *);
int simk_accept(int, struct sockaddr *, socklen_t *);
int simk_fcntl(int, int, ...);
ssize_t simk_send(int, const void *, size_t, int);
ssize_t simk_recv(int, void *, size_t, int);
int simk_printf(const char *, ...);
typedef void (*sighandler_fn)(int);
sighandler_fn simk_signal(int, sighandler_fn);

// ---------------------------------------------------------------- clock
int simk_usleep(useconds_t us) {
  struct timespec ts; ts.tv_sec = us / 1000000; ts.tv_nsec = (long)(us % 1000000) * 1000L;
  int r = simk_clock_nanosleep(CLOCK_MONOTONIC, 0, &ts, nullptr);
  if (r) { errno = r; return -1; }
  return 0;
}
unsigned simk_sleep(unsigned s) {
  struct timespec ts, rem; ts.tv_sec = s; ts.tv_nsec = 0; rem.tv_sec = 0; rem.tv_nsec = 0;
  int r = simk_clock_nanosleep(CLOCK_MONOTONIC, 0, &ts, &rem);
  return r ? (unsigned)rem.tv_sec + (rem.tv_nsec ? 1 : 0) : 0;
}
time_t simk_time(time_t *out) {
  time_t t = (time_t)(now_ns() / 1000000000ULL);
  if (out) *out = t;
  return t;
}

// ---------------------------------------------------------------- descriptors
int simk_accept4(int fd, struct sockaddr *sa, socklen_t *len, int flags) {
  int nfd = simk_accept(fd, sa, len);
  if (nfd < 0) return nfd;
  FdEnt *e = fd_get(nfd);
  if (e) {
    if (flags & SOCK_CLOEXEC) e->cloexec = true;
    if (flags & SOCK_NONBLOCK) simk_fcntl(nfd, F_SETFL, O_NONBLOCK);
  }
  return nfd;
}
ssize_t simk_write(int fd, const void *buf, size_t len) {
  if (!cur()) return write(fd, buf, len);
  FdEnt *e = fd_get(fd);
  if (!e) { if (fd == 1 || fd == 2) return (ssize_t)len; sc_enter(SC_SEND); errno = EBADF; return -1; }
  if (e->kind == FD_SOCK) return simk_send(fd, buf, len, 0);
  if (e->kind == FD_FILE) return write(e->realfd, buf, len);
  errno = EINVAL; return -1;
}
ssize_t simk_read(int fd, void *buf, size_t len) {
  if (!cur()) return read(fd, buf, len);
  FdEnt *e = fd_get(fd);
  if (!e) { sc_enter(SC_RECV); errno = EBADF; return -1; }
  if (e->kind == FD_SOCK) return simk_recv(fd, buf, len, 0);
  if (e->kind == FD_FILE) return read(e->realfd, buf, len);
  errno = EINVAL; return -1;
}
int simk_sigaction(int sig, const struct sigaction *act, struct sigaction *old) {
  if (old) { memset(old, 0, sizeof *old); old->sa_handler = (cur() && sig == SIGPIPE && proc_of(cur()->proc).sigpipe_ignored) ? SIG_IGN : SIG_DFL; }
  if (act && !(act->sa_flags & SA_SIGINFO)) simk_signal(sig, act->sa_handler);
  return 0;
}

// signal masks of simulated threads are not modelled (signals are injected as EINTR at blocking calls whatever the mask says);
// the real mask of the worker process must stay untouched
int simk_sigprocmask(int, const sigset_t *, sigset_t *old) { if (old) sigemptyset(old); return 0; }
int simk_pthread_sigmask(int, const sigset_t *, sigset_t *old) { if (old) sigemptyset(old); return 0; }

// ---------------------------------------------------------------- directory descriptors
int simk_open(const char *, int, ...);
int simk_openat(int dirfd, const char *path, int flags, ...) {
  mode_t mode = 0;
  if (flags & O_CREAT) { va_list ap; va_start(ap, flags); mode = va_arg(ap, mode_t); va_end(ap); }
  if (dirfd == AT_FDCWD || (path && path[0] == '/')) return simk_open(path, flags, mode);
  Task *t = cur();
  if (!t) return openat(dirfd, path, flags, mode);
  FdEnt *d = fd_get(dirfd);
  int real_dir = d && d->kind == FD_FILE ? d->realfd : dirfd;      // a descriptor taken from a real DIR stream (dirfd) is a real one
  int n = sc_enter(SC_OPEN);
  int err = want_fail(SC_OPEN, n);
  if (err) { errno = err; return -1; }
  int rfd = openat(real_dir, path, flags, mode);
  if (rfd < 0) return -1;
  FdEnt e; e.kind = FD_FILE; e.realfd = rfd; e.cloexec = flags & O_CLOEXEC;
  return fd_alloc(proc_of(t->proc), e);
}
// the stream takes the descriptor over: from here on it is accounted as an open directory stream
DIR *simk_fdopendir(int fd) {
  Task *t = cur();
  if (!t) return fdopendir(fd);
  FdEnt *e = fd_get(fd);
  if (!e || e->kind != FD_FILE) { errno = EBADF; return nullptr; }
  int n = sc_enter(SC_OPENDIR);
  int err = want_fail(SC_OPENDIR, n);
  if (err) { errno = err; return nullptr; }
  DIR *d = fdopendir(e->realfd);
  if (!d) return nullptr;
  proc_of(t->proc).fds.erase(fd);
  k->dirs_open++;
  return d;
}

// ---------------------------------------------------------------- threads
int simk_pthread_detach(pthread_t th) { return sim::shim::detach_native(th); }
int simk_pthread_once(pthread_once_t *once, void (*fn)(void)) {
  // control word: 0 = not run, 1 = running, 2 = done (the library object owns the word; the simulator only interprets it)
  volatile int *w = (volatile int *)once;
  yield_point();
  while (*w == 1) yield_point();
  if (*w == 0) { *w = 1; fn(); *w = 2; }
  return 0;
}

// ---------------------------------------------------------------- message sinks
static bool std_stream(FILE *f) { return f == stdout || f == stderr; }
int simk_fprintf(FILE *f, const char *fmt, ...) {
  va_list ap; va_start(ap, fmt);
  int r = 0;
  if (std_stream(f)) { const char *a = strstr(fmt, "%s") ? va_arg(ap, const char *) : ""; simk_printf(fmt, a); }
  else r = vfprintf(f, fmt, ap);
  va_end(ap);
  return r;
}
int simk_vfprintf(FILE *f, const char *fmt, va_list ap) { return std_stream(f) ? 0 : vfprintf(f, fmt, ap); }
int simk_vprintf(const char *, va_list) { return 0; }
int simk_fputs(const char *s, FILE *f) { if (std_stream(f)) { simk_printf("%s", s); return 0; } return fputs(s, f); }
int simk_fputc(int c, FILE *f) { return std_stream(f) ? c : fputc(c, f); }
int simk_putc(int c, FILE *f) { return std_stream(f) ? c : putc(c, f); }
int simk_putchar(int c) { return c; }
size_t simk_fwrite(const void *p, size_t sz, size_t n, FILE *f) { if (std_stream(f)) { simk_printf("%s", (sz != 0 && n != 0) ? (const char *)p : ""); return n; } return fwrite(p, sz, n, f); }
int simk_fflush(FILE *f) { return (!f || std_stream(f)) ? 0 : fflush(f); }
void simk_perror(const char *s) { simk_printf("%s", s ? s : ""); }

}  // extern "C"
