// Our own implementation of the __tsan_* ABI (flavour T).  The library objects are compiled with
// -fsanitize=thread --param tsan-distinguish-volatile=1 and linked against THIS instead of libtsan:
// every atomic / fence / volatile access becomes a scheduling point whose operation we execute ourselves
// (with its declared memory order feeding the happens-before engine); plain accesses feed the race detector.
#include "sim.h"
#include "core.h"
#include "hb.h"
#include <string.h>
#include <stdint.h>

using namespace sim;

namespace sim {
const bool g_flavour_tsan = true;

// ---- x86-TSO store buffer mode (C04 litmus): relaxed/release atomic stores are delayed
struct SBEntry { void *addr; uint64_t val; int size; };
static std::vector<SBEntry> sbuf[MAXT];
bool g_tso_mode = false;
void tso_reset() { for (auto &b : sbuf) b.clear(); g_tso_mode = false; }
static void sb_commit(const SBEntry &e) {
  switch (e.size) {
  case 1: *(volatile uint8_t *)e.addr = (uint8_t)e.val; break;
  case 2: *(volatile uint16_t *)e.addr = (uint16_t)e.val; break;
  case 4: *(volatile uint32_t *)e.addr = (uint32_t)e.val; break;
  default: *(volatile uint64_t *)e.addr = e.val; break;
  }
  spin_wake(e.addr);
}
static void sb_flush(int tid) {
  for (auto &e : sbuf[tid]) sb_commit(e);
  sbuf[tid].clear();
}
void tso_flush_all() { for (int i = 0; i < MAXT; i++) sb_flush(i); }
static void sb_maybe_drain() {
  // at every yield point some task's oldest buffered store may reach memory
  if (!g_tso_mode) return;
  for (int i = 0; i < ntasks(); i++) {
    while (!sbuf[i].empty() && flip(ST_STOREBUF, cfg().p[ST_STOREBUF] > 0 ? cfg().p[ST_STOREBUF] : 0.3)) {
      sb_commit(sbuf[i].front());
      sbuf[i].erase(sbuf[i].begin());
    }
  }
}
static bool sb_forward(int tid, void *addr, int size, uint64_t *out) {
  for (int i = (int)sbuf[tid].size() - 1; i >= 0; i--)
    if (sbuf[tid][i].addr == addr && sbuf[tid][i].size == size) { *out = sbuf[tid][i].val; return true; }
  return false;
}
}  // namespace sim

static inline bool active() { return R && R->current && !R->in_sim; }
// values that may be addresses never enter the event log (they differ between two executions of one seed)
static inline int64_t logv(uint64_t v) { return v < (1ULL << 32) ? (int64_t)v : (int64_t)0xFFFFFFFFLL; }

static void observe(const void *addr) {
  Task *t = R->current;
  if (t->spin_addr == addr) { t->spin_count++; t->spin_total++; }
  else { t->spin_addr = addr; t->spin_count = 1; t->spin_total = 1; }
  if (t->spin_count >= 4) {
    bool other = false;
    for (int i = 0; i < ntasks(); i++) { Task *o = task(i); if (o != t && o->state == T_RUNNABLE && o->bkind != B_SPIN) other = true; }
    if (other) { t->spin_count = 0; spin_block(addr); }
    else if (t->spin_total >= 64) {
      // nobody else can run and this call keeps polling one location: it can never complete
      if (hooks().completion_required) violate("livelock", t->api ? t->api : "", "call polls one memory location for ever (no other task can run)");
      else inconclusive("livelock");
    }
  }
}
static void wrote(const void *addr) {
  Task *t = R->current;
  t->spin_addr = nullptr; t->spin_count = 0; t->spin_total = 0;
  spin_wake(addr);
}

template <typename T> static T do_load(const volatile T *a, int mo, bool vol) {
  if (!active()) return *a;
  yield_point(1);
  sb_maybe_drain();
  T v;
  uint64_t fw;
  if (g_tso_mode && sb_forward(cur()->id, (void *)a, sizeof(T), &fw)) v = (T)fw;
  else v = *a;
  hb::atomic_access((const void *)a, sizeof(T), false);
  hb::atomic_load((const void *)a, vol ? 2 : mo);
  ev(vol ? "vload" : "aload", sizeof(T), mo, logv((uint64_t)v));
  observe((const void *)a);
  return v;
}
template <typename T> static void do_store(volatile T *a, T v, int mo, bool vol) {
  if (!active()) { *a = v; return; }
  yield_point(1);
  sb_maybe_drain();
  hb::atomic_access((const void *)a, sizeof(T), true);
  hb::atomic_store((const void *)a, vol ? 3 : mo);
  ev(vol ? "vstore" : "astore", sizeof(T), mo, logv((uint64_t)v));
  if (g_tso_mode && !vol && mo != 5) {
    sbuf[cur()->id].push_back(SBEntry{(void *)a, (uint64_t)v, (int)sizeof(T)});
    probe("tso.store_buffered");
    return;
  }
  if (g_tso_mode) sb_flush(cur()->id);
  *a = v;
  wrote((const void *)a);
}
enum Op { OP_XCHG, OP_ADD, OP_SUB, OP_AND, OP_OR, OP_XOR, OP_NAND };
template <typename T> static T do_rmw(volatile T *a, T v, int mo, Op op) {
  if (!active()) {
    T o = *a; T n;
    switch (op) { case OP_XCHG: n = v; break; case OP_ADD: n = (T)(o + v); break; case OP_SUB: n = (T)(o - v); break;
      case OP_AND: n = o & v; break; case OP_OR: n = o | v; break; case OP_XOR: n = o ^ v; break; default: n = (T)~(o & v); }
    *a = n; return o;
  }
  yield_point(1);
  sb_maybe_drain();
  if (g_tso_mode) sb_flush(cur()->id);
  T o = *a, n;
  switch (op) { case OP_XCHG: n = v; break; case OP_ADD: n = (T)(o + v); break; case OP_SUB: n = (T)(o - v); break;
    case OP_AND: n = o & v; break; case OP_OR: n = o | v; break; case OP_XOR: n = o ^ v; break; default: n = (T)~(o & v); }
  *a = n;
  hb::atomic_access((const void *)a, sizeof(T), true);
  hb::atomic_rmw((const void *)a, mo);
  ev("armw", op, mo, logv((uint64_t)o));
  wrote((const void *)a);
  return o;
}
template <typename T> static int do_cas(volatile T *a, T *expected, T desired, int mo, int fmo) {
  if (!active()) { if (*a == *expected) { *a = desired; return 1; } *expected = *a; return 0; }
  yield_point(1);
  sb_maybe_drain();
  if (g_tso_mode) sb_flush(cur()->id);
  T o = *a;
  if (o == *expected) {
    *a = desired;
    hb::atomic_access((const void *)a, sizeof(T), true);
    hb::atomic_rmw((const void *)a, mo);
    ev("acas", 1, mo, logv((uint64_t)o));
    wrote((const void *)a);
    return 1;
  }
  *expected = o;
  hb::atomic_access((const void *)a, sizeof(T), false);
  hb::atomic_load((const void *)a, fmo);
  ev("acas", 0, fmo, logv((uint64_t)o));
  observe((const void *)a);
  return 0;
}

extern "C" {

void __tsan_init(void) {}
void __tsan_func_entry(void *) {}
void __tsan_func_exit(void) {}
void __tsan_vptr_update(void **, void *) {}
void __tsan_vptr_read(void **) {}

#define PLAIN(N) \
  void __tsan_read##N(void *a) { if (active()) hb::plain_read(a, N); } \
  void __tsan_write##N(void *a) { if (active()) hb::plain_write(a, N); } \
  void __tsan_unaligned_read##N(void *a) { if (active()) hb::plain_read(a, N); } \
  void __tsan_unaligned_write##N(void *a) { if (active()) hb::plain_write(a, N); }
PLAIN(1) PLAIN(2) PLAIN(4) PLAIN(8) PLAIN(16)
void __tsan_read_range(void *a, size_t n) { if (active() && n) hb::plain_read(a, n); }
void __tsan_write_range(void *a, size_t n) { if (active() && n) hb::plain_write(a, n); }

// volatile accesses: notified BEFORE the access, which the compiled code then performs itself.
// They are scheduling points; the notified access executes right after we return (atomically w.r.t. tasks).
#define VOL(N) \
  void __tsan_volatile_read##N(void *a) { if (!active()) return; yield_point(2); \
      Task *t = cur(); if (t->spin_addr == a) { t->spin_count++; t->spin_total++; } else { t->spin_addr = a; t->spin_count = 1; t->spin_total = 1; } \
      if (t->spin_count >= 6) { t->spin_count = 0; spin_block(a); }  /* parked until somebody writes a: the load below sees that write */ \
      hb::atomic_access(a, N, false); hb::atomic_load(a, 2); ev("vread", N); } \
  void __tsan_volatile_write##N(void *a) { if (!active()) return; yield_point(2); hb::atomic_access(a, N, true); hb::atomic_store(a, 3); \
      ev("vwrite", N); wrote(a); } \
  void __tsan_unaligned_volatile_read##N(void *a) { __tsan_volatile_read##N(a); } \
  void __tsan_unaligned_volatile_write##N(void *a) { __tsan_volatile_write##N(a); }
VOL(1) VOL(2) VOL(4) VOL(8) VOL(16)

#define ATOMICS(N, T) \
  T __tsan_atomic##N##_load(const volatile T *a, int mo) { return do_load<T>(a, mo, false); } \
  void __tsan_atomic##N##_store(volatile T *a, T v, int mo) { do_store<T>(a, v, mo, false); } \
  T __tsan_atomic##N##_exchange(volatile T *a, T v, int mo) { return do_rmw<T>(a, v, mo, OP_XCHG); } \
  T __tsan_atomic##N##_fetch_add(volatile T *a, T v, int mo) { return do_rmw<T>(a, v, mo, OP_ADD); } \
  T __tsan_atomic##N##_fetch_sub(volatile T *a, T v, int mo) { return do_rmw<T>(a, v, mo, OP_SUB); } \
  T __tsan_atomic##N##_fetch_and(volatile T *a, T v, int mo) { return do_rmw<T>(a, v, mo, OP_AND); } \
  T __tsan_atomic##N##_fetch_or(volatile T *a, T v, int mo) { return do_rmw<T>(a, v, mo, OP_OR); } \
  T __tsan_atomic##N##_fetch_xor(volatile T *a, T v, int mo) { return do_rmw<T>(a, v, mo, OP_XOR); } \
  T __tsan_atomic##N##_fetch_nand(volatile T *a, T v, int mo) { return do_rmw<T>(a, v, mo, OP_NAND); } \
  int __tsan_atomic##N##_compare_exchange_strong(volatile T *a, T *e, T d, int mo, int fmo) { return do_cas<T>(a, e, d, mo, fmo); } \
  int __tsan_atomic##N##_compare_exchange_weak(volatile T *a, T *e, T d, int mo, int fmo) { return do_cas<T>(a, e, d, mo, fmo); } \
  T __tsan_atomic##N##_compare_exchange_val(volatile T *a, T e, T d, int mo, int fmo) { T x = e; do_cas<T>(a, &x, d, mo, fmo); return x; }
ATOMICS(8, uint8_t) ATOMICS(16, uint16_t) ATOMICS(32, uint32_t) ATOMICS(64, uint64_t)

void __tsan_atomic_thread_fence(int mo) {
  if (!active()) return;
  yield_point(1);
  sb_maybe_drain();
  if (g_tso_mode && mo == 5) sb_flush(cur()->id);
  hb::fence(mo);
  ev("fence", mo);
}
void __tsan_atomic_signal_fence(int) {}

// libc block operations called by the library (flavour T only): same effect, plus range reports for the race detector
void *simk_memcpy(void *d, const void *s, size_t n) {
  if (active() && n) { hb::plain_read(s, n); hb::plain_write(d, n); }
  return memcpy(d, s, n);
}
void *simk_memmove(void *d, const void *s, size_t n) {
  if (active() && n) { hb::plain_read(s, n); hb::plain_write(d, n); }
  return memmove(d, s, n);
}
void *simk_memset(void *d, int c, size_t n) {
  if (active() && n) hb::plain_write(d, n);
  return memset(d, c, n);
}

// libc string operations called by the library (flavour T only): same effect, plus range reports, so that static or shared
// strings handled through them (a cache, a name buffer) are seen by the race detector like any other memory
size_t simk_strlen(const char *a) { size_t n = strlen(a); if (active()) hb::plain_read(a, n + 1); return n; }
int simk_strcmp(const char *a, const char *b) {
  if (active()) { size_t i = 0; while (a[i] && a[i] == b[i]) i++; hb::plain_read(a, i + 1); hb::plain_read(b, i + 1); }
  return strcmp(a, b);
}
int simk_strncmp(const char *a, const char *b, size_t n) {
  if (active() && n) { size_t i = 0; while (i + 1 < n && a[i] && a[i] == b[i]) i++; hb::plain_read(a, i + 1); hb::plain_read(b, i + 1); }
  return strncmp(a, b, n);
}
int simk_memcmp(const void *a, const void *b, size_t n) { if (active() && n) { hb::plain_read(a, n); hb::plain_read(b, n); } return memcmp(a, b, n); }
char *simk_strcpy(char *d, const char *s2) { size_t n = strlen(s2) + 1; if (active()) { hb::plain_read(s2, n); hb::plain_write(d, n); } return strcpy(d, s2); }
char *simk_stpcpy(char *d, const char *s2) { size_t n = strlen(s2) + 1; if (active()) { hb::plain_read(s2, n); hb::plain_write(d, n); } return stpcpy(d, s2); }
char *simk_strncpy(char *d, const char *s2, size_t n) { if (active() && n) { hb::plain_read(s2, strnlen(s2, n - 1) + 1); hb::plain_write(d, n); } return strncpy(d, s2, n); }
char *simk_strcat(char *d, const char *s2) {
  size_t dl = strlen(d), n = strlen(s2) + 1;
  if (active()) { hb::plain_read(d, dl + 1); hb::plain_read(s2, n); hb::plain_write(d + dl, n); }
  return strcat(d, s2);
}
char *simk_strncat(char *d, const char *s2, size_t n) {
  size_t dl = strlen(d), sl = strnlen(s2, n);
  if (active()) { hb::plain_read(d, dl + 1); if (sl) hb::plain_read(s2, sl); hb::plain_write(d + dl, sl + 1); }
  return strncat(d, s2, n);
}
char *simk_strchr(const char *a, int c) { char *r = (char *)strchr(a, c); if (active()) hb::plain_read(a, r ? (size_t)(r - a) + 1 : strlen(a) + 1); return r; }

}  // extern "C"
