#pragma once
#include "sim.h"
namespace sim { namespace hb {
void atomic_access(const void *addr, size_t n, bool write);   // shadow cell (atomic flag)
void atomic_load(const void *addr, int mo);
void atomic_store(const void *addr, int mo);
void atomic_rmw(const void *addr, int mo);
void fence(int mo);
} }
