// Tracking allocator installed through the public p_mem_set_vtable seam.
#include "sim.h"
#include "core.h"
#include <stdlib.h>
#include <string.h>
#include <stdio.h>
#include <map>
#include <vector>
#include <algorithm>

extern "C" {
typedef struct PMemVTable_ {
  void *(*f_malloc)(size_t);
  void *(*f_realloc)(void *, size_t);
  void (*f_free)(void *);
} PMemVTable;
int p_mem_set_vtable(const PMemVTable *table);
}

namespace sim {
namespace alloc {

struct Block { uint64_t seq; size_t size; int task; int proc; const char *api; };
static std::map<void *, Block> live;
static std::vector<void *> quarantine;        // freed in this run, really freed at run end (flavour T: no reuse)
static uint64_t seq_ctr = 0, fail_ctr = 0;
static int64_t plan_k = -1; static bool plan_from = false; static int64_t plan_count = 0;
bool fault_flip_enabled = false;

static bool should_fail() {
  if (!R || !R->current) return false;
  if (plan_k > 0) {
    plan_count++;
    if (plan_count == plan_k || (plan_from && plan_count > plan_k)) { fail_ctr++; fired(ST_ALLOC); return true; }
    return false;
  }
  if (plan_k == 0) plan_count++;
  if (fault_flip_enabled && cfg().p[ST_ALLOC] > 0 && flip(ST_ALLOC, cfg().p[ST_ALLOC])) { fail_ctr++; return true; }
  return false;
}

static void *sim_malloc(size_t n) {
  if (!R) return malloc(n);
  bool f = should_fail();
  if (f) { ev("alloc_fail", (int64_t)n); return nullptr; }
  void *p = malloc(n);
  if (!p) infra_error("host malloc failed");
  memset(p, 0xA5, n);
  Task *t = R->current;
  live[p] = Block{++seq_ctr, n, t ? t->id : -1, t ? t->proc : 0, t ? t->api : nullptr};
  hb::heap_alloc(p, n);
  ev("alloc", (int64_t)n);
  return p;
}

static void sim_free(void *p) {
  if (!R) { free(p); return; }
  if (!p) return;
  auto it = live.find(p);
  if (it == live.end()) {
    Task *t = R->current;
    if (hb::heap_is_freed(p, 1)) violate("double_free", t && t->api ? t->api : "", "block freed twice");
    violate("foreign_free", t && t->api ? t->api : "", "free of a pointer the allocator never returned");
  }
  size_t n = it->second.size;
  live.erase(it);
  hb::forget_range(p, n);
  hb::heap_free(p, n);
  ev("free", (int64_t)n);
  if (g_flavour_tsan) { memset(p, 0xDD, n); quarantine.push_back(p); }
  else free(p);   // ASan quarantines and poisons
}

static void *sim_realloc(void *p, size_t n) {
  if (!R) return realloc(p, n);
  if (!p) return sim_malloc(n);
  size_t old;
  {
    auto it = live.find(p);
    if (it == live.end()) violate("foreign_free", "", "realloc of a pointer the allocator never returned");
    old = it->second.size;
  }
  void *q = sim_malloc(n);
  if (!q) return nullptr;          // old block stays valid
  memcpy(q, p, old < n ? old : n);
  sim_free(p);
  return q;
}

void install() {
  PMemVTable vt = {sim_malloc, sim_realloc, sim_free};
  if (!p_mem_set_vtable(&vt)) infra_error("p_mem_set_vtable failed");
}

void run_begin() {
  live.clear();
  seq_ctr = 0; fail_ctr = 0; plan_k = -1; plan_from = false; plan_count = 0;
  fault_flip_enabled = false;
}
void run_end() {
  for (void *p : quarantine) free(p);
  quarantine.clear();
  for (auto &kv : live) free(kv.first);   // left-overs of aborted runs
  live.clear();
}

size_t outstanding_count() { return live.size(); }
bool is_live(const void *p) { return live.count((void *)p) != 0; }
uint64_t total_allocs() { return seq_ctr; }
uint64_t failed_count() { return fail_ctr; }

std::string outstanding_desc(size_t max) {
  std::string s;
  std::vector<std::pair<uint64_t, const Block *>> v;
  for (auto &kv : live) v.push_back({kv.second.seq, &kv.second});
  std::sort(v.begin(), v.end());
  size_t k = 0;
  for (auto &e : v) {
    if (k++ >= max) { s += "..."; break; }
    char b[128]; snprintf(b, sizeof b, "[#%llu %zuB by %s] ", (unsigned long long)e.first, e.second->size, e.second->api ? e.second->api : "?");
    s += b;
  }
  return s;
}

Mark mark() { return Mark{seq_ctr}; }
size_t outstanding_since(Mark m, std::string *desc) {
  size_t n = 0;
  std::vector<std::pair<uint64_t, const Block *>> v;
  for (auto &kv : live) if (kv.second.seq > m.seq) { n++; v.push_back({kv.second.seq, &kv.second}); }
  if (desc) {
    std::sort(v.begin(), v.end());
    for (size_t i = 0; i < v.size() && i < 5; i++) {
      char b[128]; snprintf(b, sizeof b, "[#%llu %zuB by %s] ", (unsigned long long)v[i].first, v[i].second->size, v[i].second->api ? v[i].second->api : "?");
      *desc += b;
    }
  }
  return n;
}

void set_fail_plan(int64_t kth, bool from) { plan_k = kth; plan_from = from; plan_count = 0; }
int64_t allocs_since_plan() { return plan_count; }

void reclaim_process(int proc) {
  for (auto it = live.begin(); it != live.end();) {
    if (it->second.proc == proc) { hb::forget_range(it->first, it->second.size); free(it->first); it = live.erase(it); }
    else ++it;
  }
}

}  // namespace alloc
}  // namespace sim
