// Simulated kernel: query / control interface for harnesses.
#pragma once
#include "sim.h"
#include <string>
#include <vector>

namespace sim { namespace kern {

enum CallId { SC_SEM_OPEN, SC_SEM_CLOSE, SC_SEM_UNLINK, SC_SEM_WAIT, SC_SEM_POST, SC_SHM_OPEN, SC_SHM_UNLINK, SC_FTRUNCATE, SC_FSTAT,
              SC_MMAP, SC_MUNMAP, SC_CLOSE, SC_NANOSLEEP, SC_SOCKET, SC_BIND, SC_LISTEN, SC_ACCEPT, SC_CONNECT, SC_SEND, SC_SENDTO, SC_RECV,
              SC_RECVFROM, SC_POLL, SC_SHUTDOWN, SC_GETSOCKOPT, SC_SETSOCKOPT, SC_GETSOCKNAME, SC_GETPEERNAME, SC_FCNTL, SC_OPEN, SC_FOPEN, SC_OPENDIR, SC_DLOPEN, SC_PTHREAD_CREATE, SC_KEY_CREATE, SC_GETADDRINFO, SC_COUNT };
extern const char *call_names[SC_COUNT];

void run_begin();
void run_end();

// ---- fault plans (in addition to the per-run probabilities in cfg().p[])
void plan_eintr(int call, int kth);                 // the kth invocation (1-based, counted per run) of this call returns EINTR once
void plan_fail(int call, int kth, int err);         // the kth invocation fails with err (F11)
void unplan_fail(int call, int kth);                 // withdraw a planned failure that did not fire
void plan_kill(int proc, int kth_ipc_call, bool after);   // F6: kill proc before/after its kth IPC call
int calls_made(int call);                           // invocations so far in this run
int ipc_calls_of(int proc);
bool proc_dead(int proc);
void set_killable(int proc, bool v);                 // random kills (cfg().p[ST_KILL]) may hit this process, at most one per run
int eintr_fired();
void faults_off(bool off);                          // nestable: no fault injection into simulated system calls while off
struct RawScope { RawScope() { faults_off(true); } ~RawScope() { faults_off(false); } };

// ---- IPC name space
int last_sem_obj();                                 // object id returned by the current task's last successful sem_open (-1 none)
int last_shm_obj();
bool last_shm_created();
size_t last_shm_size_at_open();
long last_fstat_size();                             // st_size the current task's last fstat reported since its last shm_open (-1: none)                      // size the object had when the current task's last shm_open returned                            // the current task's last shm_open created the object
const char *last_sem_name();                        // platform key used by the current task's last sem_open
const char *last_shm_name();
int sem_value(int obj);
int sem_init_value(int obj);                        // value the object was created with
bool last_sem_created();                            // the current task's last successful sem_open created the object
int sem_open_refs(int obj);
bool sem_name_bound(const char *name);
int sem_obj_of_name(const char *name);              // -1 if unbound
bool shm_name_bound(const char *name);
int shm_obj_of_name(const char *name);
size_t shm_size(int obj);
std::vector<std::string> names_bound();             // every sem/shm name currently in the name space ("sem:/x", "shm:/y")
int sem_waiters(int obj);

// ---- descriptors / VM
int fd_count(int proc);                             // open simulated descriptors
std::string fd_desc(int proc);
int bad_closes();                                   // close() of a descriptor that was not open (double / foreign close)
uint64_t closes_total();
size_t mapped_bytes(int proc);                      // bytes currently mapped through simulated mmap
int mapping_count(int proc);
std::string mapping_desc(int proc);
bool fd_cloexec(int proc, int fd);
int syscalls_in_bracket();                          // system calls issued by the current task since its current API bracket began

// ---- signals as their observable effect
int sigpipe_deliveries();                           // would-be SIGPIPE deliveries (write to a gone peer without MSG_NOSIGNAL / ignore)
bool sigpipe_ignored(int proc);

// ---- real pass-through resources (fopen/opendir/dlopen are executed for real, but counted and failable)
int passthrough_open();                             // FILE* + DIR* + dlopen handles currently open through the library
std::string passthrough_desc();

// ---- messages
uint64_t msg_errors(); uint64_t msg_warnings();

} }
