#include "fiber.h"
#include <sys/mman.h>
#include <stdlib.h>
#include <stdint.h>
#include <stdio.h>
#include <vector>

#ifdef SIM_ASAN
extern "C" {
void __sanitizer_start_switch_fiber(void **fake_stack_save, const void *bottom, size_t size);
void __sanitizer_finish_switch_fiber(void *fake_stack_save, const void **bottom_old, size_t *size_old);
void __asan_unpoison_memory_region(void const volatile *addr, size_t size);
}
#endif

asm(R"(
.text
.globl sim_switch
.type sim_switch,@function
sim_switch:
  pushq %rbp
  pushq %rbx
  pushq %r12
  pushq %r13
  pushq %r14
  pushq %r15
  movq %rsp, (%rdi)
  movq %rsi, %rsp
  popq %r15
  popq %r14
  popq %r13
  popq %r12
  popq %rbx
  popq %rbp
  ret
.size sim_switch,.-sim_switch
)");

namespace sim {

static constexpr size_t STACK_SIZE = 256 * 1024;
static constexpr size_t GUARD = 4096;
static std::vector<char *> pool;

char *stack_acquire(size_t *size) {
  *size = STACK_SIZE;
  char *s;
  if (!pool.empty()) {
    s = pool.back();
    pool.pop_back();
  } else {
    char *m = (char *)mmap(nullptr, STACK_SIZE + GUARD, PROT_READ | PROT_WRITE, MAP_PRIVATE | MAP_ANONYMOUS | MAP_NORESERVE, -1, 0);
    if (m == MAP_FAILED) { perror("mmap stack"); abort(); }
    mprotect(m, GUARD, PROT_NONE);
    s = m + GUARD;
  }
#ifdef SIM_ASAN
  __asan_unpoison_memory_region(s, STACK_SIZE);
#endif
  return s;
}

void stack_release(char *stack) { pool.push_back(stack); }

void *fiber_prepare(char *stack, size_t size, void (*entry)()) {
  uintptr_t top = ((uintptr_t)stack + size) & ~(uintptr_t)15;
  uint64_t *sp = (uint64_t *)top;
  *--sp = 0;                       // alignment slot: after 'ret' rsp == top-8 (== 8 mod 16)
  *--sp = (uint64_t)entry;         // return address for sim_switch's ret
  for (int i = 0; i < 6; i++) *--sp = 0;   // rbp rbx r12 r13 r14 r15
  return sp;
}

#ifdef SIM_ASAN
static const void *main_bottom = nullptr;
static size_t main_size = 0;
#endif

void fiber_switch(void **from_sp, void **asan_fake_from, void *to_sp, const void *to_bottom, size_t to_size) {
#ifdef SIM_ASAN
  if (!to_bottom) { to_bottom = main_bottom; to_size = main_size; }
  __sanitizer_start_switch_fiber(asan_fake_from, to_bottom, to_size);
#else
  (void)asan_fake_from; (void)to_bottom; (void)to_size;
#endif
  sim_switch(from_sp, to_sp);
}

void fiber_landed(void *asan_fake_mine) {
#ifdef SIM_ASAN
  const void *ob; size_t os;
  __sanitizer_finish_switch_fiber(asan_fake_mine, &ob, &os);
  if (!main_bottom) { main_bottom = ob; main_size = os; }   // first landing always comes from the main context
#else
  (void)asan_fake_mine;
#endif
}

}  // namespace sim
