// Minimal x86-64 fiber switch with optional ASan annotations.
#pragma once
#include <stddef.h>

extern "C" void sim_switch(void **save_sp, void *load_sp);

namespace sim {
struct Task;
char *stack_acquire(size_t *size);          // pooled, guard page below
void stack_release(char *stack);
void *fiber_prepare(char *stack, size_t size, void (*entry)());   // returns initial sp
// switch from the current context (saving into *from_sp) to the context (to_sp, to_stack...)
// asan_fake_from: slot to save current fake stack (nullptr = current context is being abandoned)
void fiber_switch(void **from_sp, void **asan_fake_from, void *to_sp, const void *to_stack_bottom, size_t to_stack_size);
void fiber_landed(void *asan_fake_mine);    // call right after gaining control (first entry and after each switch back)
}
