// Simulated kernel, part 2: network (sockets, poll). Filled in with the socket harnesses.
#include "sim.h"
#include "core.h"
#include "kernel.h"
#include "kernel_int.h"

namespace sim { namespace kern {
void net_run_end() {}
void sock_release(SockObj *) {}
} }
