// Simulated kernel, part 2: sockets (AF_INET/AF_INET6, stream + datagram, loopback semantics) and poll.
#include "sim.h"
#include "core.h"
#include "kernel.h"
#include "kernel_int.h"
#include "knet.h"
#include <arpa/inet.h>
#include <errno.h>
#include <fcntl.h>
#include <netinet/in.h>
#include <poll.h>
#include <signal.h>
#include <stdarg.h>
#include <stdio.h>
#include <string.h>
#include <sys/socket.h>
#include <unistd.h>
#include <algorithm>
#include <deque>

using namespace sim;
using namespace sim::kern;

namespace sim { namespace kern {

struct Net {
  std::vector<SockObj *> socks;
  uint16_t next_port = 40000;
  uint64_t wire_seq = 0;
  NetStats stats;
};
static Net &net() { if (!k->net) k->net = new Net(); return *k->net; }

void net_run_end() {
  if (!k || !k->net) return;
  for (auto *s : k->net->socks) delete s;
  delete k->net;
  k->net = nullptr;
}
NetStats &net_stats() { return net().stats; }
void set_net_defaults(int sndbuf, int rcvbuf, bool nf) { k->default_sndbuf = sndbuf; k->default_rcvbuf = rcvbuf; k->net_faults = nf; }
int sock_count_open() { int n = 0; for (auto *s : net().socks) if (s->fdrefs > 0) n++; return n; }
SockObj *sock_by_id(int id) { return id >= 0 && id < (int)net().socks.size() ? net().socks[id] : nullptr; }
SockObj *sock_of_fd(int proc, int fd) { auto &f = proc_of(proc).fds; auto it = f.find(fd); return it == f.end() || it->second.kind != FD_SOCK ? nullptr : it->second.sock; }

static void wake_sock(SockObj *s) {
  for (int i = 0; i < ntasks(); i++) { Task *t = task(i); if (t->state == T_BLOCKED && t->bkind == B_SOCK && t->bobj == s->id) wake(t); }
}

static bool addr_any(const NAddr &a) { static const uint8_t z[16] = {0}; return memcmp(a.ip, z, a.family == AF_INET ? 4 : 16) == 0; }
static bool addr_match(const NAddr &bound, const NAddr &dst) {
  if (bound.family != dst.family) return false;
  if (bound.port != dst.port) return false;
  if (addr_any(bound)) return true;
  return memcmp(bound.ip, dst.ip, bound.family == AF_INET ? 4 : 16) == 0;
}
static bool from_sockaddr(const struct sockaddr *sa, socklen_t len, NAddr &out) {
  out = NAddr();
  if (!sa || len < sizeof(sa_family_t)) return false;
  out.family = sa->sa_family;
  if (sa->sa_family == AF_INET) {
    if (len < sizeof(struct sockaddr_in)) return false;
    auto *in = (const struct sockaddr_in *)sa;
    memcpy(out.ip, &in->sin_addr, 4); out.port = ntohs(in->sin_port);
    return true;
  }
  if (sa->sa_family == AF_INET6) {
    if (len < sizeof(struct sockaddr_in6)) return false;
    auto *in6 = (const struct sockaddr_in6 *)sa;
    memcpy(out.ip, &in6->sin6_addr, 16); out.port = ntohs(in6->sin6_port); out.flow = in6->sin6_flowinfo; out.scope = in6->sin6_scope_id;
    return true;
  }
  return false;
}
static socklen_t to_sockaddr(const NAddr &a, struct sockaddr *sa, socklen_t *len) {
  struct sockaddr_storage ss; memset(&ss, 0, sizeof ss);
  socklen_t n;
  if (a.family == AF_INET6) {
    auto *in6 = (struct sockaddr_in6 *)&ss; in6->sin6_family = AF_INET6; memcpy(&in6->sin6_addr, a.ip, 16); in6->sin6_port = htons(a.port); in6->sin6_flowinfo = a.flow; in6->sin6_scope_id = a.scope;
    n = sizeof(struct sockaddr_in6);
  } else {
    auto *in = (struct sockaddr_in *)&ss; in->sin_family = AF_INET; memcpy(&in->sin_addr, a.ip, 4); in->sin_port = htons(a.port);
    n = sizeof(struct sockaddr_in);
  }
  if (sa && len) { memcpy(sa, &ss, std::min<socklen_t>(*len, n)); *len = n; }
  return n;
}
static void loopback_of(int family, NAddr &a) {
  a = NAddr(); a.family = family;
  if (family == AF_INET) { a.ip[0] = 127; a.ip[3] = 1; } else a.ip[15] = 1;
}
static bool port_in_use(SockObj *self, const NAddr &a) {
  for (auto *o : net().socks) {
    if (o == self || !o->bound || o->fdrefs <= 0 || o->type != self->type || o->local.family != a.family || o->local.port != a.port) continue;
    if (o->accepted_child) continue;                       // shares the listener's port
    bool overlap = addr_any(o->local) || addr_any(a) || memcmp(o->local.ip, a.ip, 16) == 0;
    if (!overlap) continue;
    if (o->so_reuseport && self->so_reuseport) continue;
    if (o->so_reuseaddr && self->so_reuseaddr && o->state != SS_LISTEN) continue;
    return true;
  }
  return false;
}
static void autobind(SockObj *s) {
  if (s->bound) return;
  NAddr a; loopback_of(s->domain, a);
  if (s->type == SOCK_DGRAM) memset(a.ip, 0, 16);
  do { a.port = net().next_port++; if (net().next_port < 40000) net().next_port = 40000; } while (port_in_use(s, a));
  s->local = a; s->bound = true;
}

// --- stream delivery: bytes accepted by send() travel on the "wire" and reach the peer's receive queue after a delay
static void deliver_stream(SockObj *from) {
  SockObj *to = from->peer;
  if (!to || to->state == SS_CLOSED) { from->wire.clear(); return; }
  size_t room = to->rx.size() < (size_t)to->rcvbuf ? (size_t)to->rcvbuf - to->rx.size() : 0;
  size_t n = std::min(room, from->wire.size());
  if (to->shut_rd) { n = from->wire.size(); from->wire.erase(from->wire.begin(), from->wire.begin() + n); n = 0; }
  if (n) {
    to->rx.insert(to->rx.end(), from->wire.begin(), from->wire.begin() + n);
    from->wire.erase(from->wire.begin(), from->wire.begin() + n);
    wake_sock(to);
  }
  if (from->wire.empty() && from->fin_pending) { from->fin_pending = false; to->rx_fin = true; wake_sock(to); }
  if (n) wake_sock(from);     // send buffer space
}
static void schedule_delivery(SockObj *from) {
  uint64_t delay = 0;
  if (cfg().p[ST_NET] > 0 && flip(ST_NET, cfg().p[ST_NET])) { delay = 1000ULL * (1 + choose(ST_NET, 3000)); net().stats.delayed++; }
  int id = from->id;
  uint64_t at = std::max(now_ns() + delay, from->last_delivery_at);   // order preserved
  from->last_delivery_at = at;
  if (delay == 0 && at <= now_ns()) { deliver_stream(from); return; }
  add_timer(at, [id]() { SockObj *s = sock_by_id(id); if (s) deliver_stream(s); });
}

static void send_rst(SockObj *s) {
  SockObj *p = s->peer;
  if (!p || p->state == SS_CLOSED) return;
  p->rx_rst = true; p->rx.clear(); p->peer_gone = true;
  net().stats.resets++;
  wake_sock(p);
}

void sock_release(SockObj *s) {
  if (--s->fdrefs > 0) return;
  // last descriptor closed
  if (s->type == SOCK_STREAM) {
    if (s->state == SS_LISTEN) {
      for (auto *c : s->accept_q) { c->state = SS_CLOSED; send_rst(c); }
      s->accept_q.clear();
      // connections still in the handshake are refused
      for (auto *o : net().socks) if (o->connecting_to == s) { o->connecting_to = nullptr; o->so_error = ECONNREFUSED; o->state = SS_NEW; o->connect_done = true; wake_sock(o); }
    } else if (s->state == SS_CONNECTED || s->state == SS_CONNECTING) {
      SockObj *p = s->peer;
      if (p && p->state != SS_CLOSED) {
        if (!s->rx.empty() || s->rx_rst) send_rst(s);                 // unread data: reset
        else { p->peer_gone = true; if (s->wire.empty()) { p->rx_fin = true; wake_sock(p); } else s->fin_pending = true; }
      }
    }
  }
  s->state = SS_CLOSED;
  wake_sock(s);
}

static SockObj *cur_sock(int fd, int *err) {
  FdEnt *e = fd_get(fd);
  if (!e) { *err = EBADF; return nullptr; }
  if (e->kind != FD_SOCK) { *err = ENOTSOCK; return nullptr; }
  return e->sock;
}

static short poll_events(SockObj *s, short want) {
  short r = 0;
  if (s->type == SOCK_STREAM) {
    if (s->state == SS_LISTEN) { if (!s->accept_q.empty()) r |= POLLIN; }
    else if (s->state == SS_CONNECTED) {
      if (!s->rx.empty() || s->rx_fin || s->shut_rd) r |= POLLIN;
      if (s->rx_rst) r |= POLLIN | POLLERR | POLLHUP;
      if (s->rx_fin && s->shut_wr) r |= POLLHUP;
      if (s->wire.size() < (size_t)s->sndbuf || s->shut_wr) r |= POLLOUT;   // after SHUT_WR a write fails at once: reported writable (tcp_poll)
      if (s->peer_gone && !s->rx_rst) r |= POLLOUT;      // a write would fail at once: writable
    } else if (s->state == SS_CONNECTING) { /* nothing yet */ }
    else if (s->state == SS_NEW) {
      if (s->connect_done && s->so_error) r |= POLLOUT | POLLERR | POLLHUP | POLLIN;
      else r |= POLLOUT | POLLHUP;                       // unconnected stream socket: Linux reports POLLOUT|POLLHUP
    }
  } else {
    if (!s->dq.empty()) r |= POLLIN;
    r |= POLLOUT;
  }
  return (short)(r & (want | POLLERR | POLLHUP));
}

// block the current task until the socket changes or the deadline passes; returns false on timeout
static bool wait_sock(SockObj *s, uint64_t deadline) {
  Task *t = cur();
  if (deadline != UINT64_MAX) {
    int id = t->id; uint64_t gen = ++R->sleep_gen[id];
    add_timer(deadline, [id, gen]() { Task *x = task(id); if (x && x->state == T_BLOCKED && x->bkind == B_SOCK && R->sleep_gen[id] == gen) wake(x); });
    t->has_timer = true;
  }
  block(B_SOCK, s->id);
  return deadline == UINT64_MAX || now_ns() < deadline;
}

} }  // namespace sim::kern

extern "C" {

typedef void (*sighandler_fn)(int);
sighandler_fn simk_signal(int sig, sighandler_fn h) {
  Task *t = cur();
  if (t && sig == SIGPIPE) proc_of(t->proc).sigpipe_ignored = (h == SIG_IGN);
  return SIG_DFL;
}

int simk_socket(int domain, int type, int protocol) {
  int n = sc_enter(SC_SOCKET);
  Task *t = cur(); if (!t) { errno = ENOSYS; return -1; }
  int err = want_fail(SC_SOCKET, n);
  bool cloexec = type & SOCK_CLOEXEC, nonblock = type & SOCK_NONBLOCK;
  int ty = type & ~(SOCK_CLOEXEC | SOCK_NONBLOCK);
  if (!err) {
    if (domain != AF_INET && domain != AF_INET6) err = EAFNOSUPPORT;
    else if (ty != SOCK_STREAM && ty != SOCK_DGRAM) err = (ty == SOCK_SEQPACKET) ? EPROTONOSUPPORT : ESOCKTNOSUPPORT;
    else if (ty == SOCK_STREAM && protocol != 0 && protocol != IPPROTO_TCP) err = EPROTONOSUPPORT;
    else if (ty == SOCK_DGRAM && protocol != 0 && protocol != IPPROTO_UDP) err = EPROTONOSUPPORT;
  }
  if (err) { errno = err; ev("socket_fail", err); return -1; }
  SockObj *s = new SockObj();
  s->id = (int)net().socks.size(); s->domain = domain; s->type = ty; s->nonblock = nonblock;
  s->sndbuf = k->default_sndbuf; s->rcvbuf = k->default_rcvbuf;
  net().socks.push_back(s);
  FdEnt e; e.kind = FD_SOCK; e.sock = s; e.cloexec = cloexec; e.nonblock = nonblock;
  s->fdrefs = 1;
  int fd = fd_alloc(proc_of(t->proc), e);
  ev("socket", s->id, fd);
  return fd;
}

int simk_fcntl(int fd, int cmd, ...) {
  int n = sc_enter(SC_FCNTL);
  va_list ap; va_start(ap, cmd); long arg = va_arg(ap, long); va_end(ap);
  FdEnt *e = fd_get(fd);
  if (!e) { errno = EBADF; return -1; }
  int ferr = cur() ? want_fail(SC_FCNTL, n) : 0;
  if (ferr) { errno = ferr; return -1; }
  switch (cmd) {
  case F_GETFD: return e->cloexec ? FD_CLOEXEC : 0;
  case F_SETFD: e->cloexec = arg & FD_CLOEXEC; return 0;
  case F_GETFL: return O_RDWR | (e->nonblock ? O_NONBLOCK : 0);
  case F_SETFL: e->nonblock = arg & O_NONBLOCK; if (e->sock) e->sock->nonblock = e->nonblock; return 0;
  default: errno = EINVAL; return -1;
  }
}

int simk_setsockopt(int fd, int level, int opt, const void *val, socklen_t len) {
  int n = sc_enter(SC_SETSOCKOPT);
  int err = 0; SockObj *s = cur_sock(fd, &err);
  if (!s) { errno = err; return -1; }
  if ((err = want_fail(SC_SETSOCKOPT, n))) { errno = err; return -1; }
  if (level != SOL_SOCKET) { errno = ENOPROTOOPT; return -1; }
  if (len < sizeof(int)) { errno = EINVAL; return -1; }
  int v; memcpy(&v, val, sizeof v);
  switch (opt) {
  case SO_REUSEADDR: s->so_reuseaddr = v != 0; return 0;
  case SO_REUSEPORT: s->so_reuseport = v != 0; return 0;
  case SO_KEEPALIVE: s->so_keepalive = v != 0; return 0;
  case SO_SNDBUF: s->sndbuf = std::max(v, 1); return 0;      // (Linux doubles and clamps; the model keeps the request, min 1)
  case SO_RCVBUF: s->rcvbuf = std::max(v, 1); return 0;
  default: errno = ENOPROTOOPT; return -1;
  }
}
int simk_getsockopt(int fd, int level, int opt, void *val, socklen_t *len) {
  int n = sc_enter(SC_GETSOCKOPT);
  int err = 0; SockObj *s = cur_sock(fd, &err);
  if (!s) { errno = err; return -1; }
  if ((err = want_fail(SC_GETSOCKOPT, n))) { errno = err; return -1; }
  if (level != SOL_SOCKET) { errno = ENOPROTOOPT; return -1; }
  int v;
  switch (opt) {
  case SO_TYPE: v = s->type; break;
  case SO_DOMAIN: v = s->domain; break;
  case SO_KEEPALIVE: v = s->so_keepalive; break;
  case SO_ERROR: v = s->so_error; s->so_error = 0; break;
  case SO_SNDBUF: v = s->sndbuf; break;
  case SO_RCVBUF: v = s->rcvbuf; break;
  case SO_REUSEADDR: v = s->so_reuseaddr; break;
  default: errno = ENOPROTOOPT; return -1;
  }
  if (*len < sizeof(int)) { errno = EINVAL; return -1; }
  memcpy(val, &v, sizeof v); *len = sizeof v;
  return 0;
}
int simk_getsockname(int fd, struct sockaddr *sa, socklen_t *len) {
  int n = sc_enter(SC_GETSOCKNAME);
  int err = 0; SockObj *s = cur_sock(fd, &err);
  if (!s) { errno = err; return -1; }
  if ((err = want_fail(SC_GETSOCKNAME, n))) { errno = err; return -1; }
  NAddr a = s->local;
  if (!s->bound) { a = NAddr(); a.family = s->domain; }
  to_sockaddr(a, sa, len);
  return 0;
}
int simk_getpeername(int fd, struct sockaddr *sa, socklen_t *len) {
  sc_enter(SC_GETPEERNAME);
  int err = 0; SockObj *s = cur_sock(fd, &err);
  if (!s) { errno = err; return -1; }
  if (!s->has_peer || (s->type == SOCK_STREAM && s->state != SS_CONNECTED)) { errno = ENOTCONN; return -1; }
  to_sockaddr(s->peer_addr, sa, len);
  return 0;
}

int simk_bind(int fd, const struct sockaddr *sa, socklen_t len) {
  int n = sc_enter(SC_BIND);
  int err = 0; SockObj *s = cur_sock(fd, &err);
  if (!s) { errno = err; return -1; }
  if ((err = want_fail(SC_BIND, n))) { errno = err; return -1; }
  NAddr a;
  if (!from_sockaddr(sa, len, a)) { errno = EINVAL; return -1; }
  if (a.family != s->domain) { errno = EAFNOSUPPORT; return -1; }
  if (s->bound) { errno = EINVAL; return -1; }
  if (a.port == 0) { s->local = a; do { s->local.port = net().next_port++; } while (port_in_use(s, s->local)); s->bound = true; }
  else { if (port_in_use(s, a)) { errno = EADDRINUSE; return -1; } s->local = a; s->bound = true; }
  ev("bind", s->id, s->local.port);
  return 0;
}
int simk_listen(int fd, int backlog) {
  int n = sc_enter(SC_LISTEN);
  int err = 0; SockObj *s = cur_sock(fd, &err);
  if (!s) { errno = err; return -1; }
  if ((err = want_fail(SC_LISTEN, n))) { errno = err; return -1; }
  if (s->type != SOCK_STREAM) { errno = EOPNOTSUPP; return -1; }
  if (s->state == SS_CONNECTED || s->state == SS_CONNECTING) { errno = EINVAL; return -1; }
  autobind(s);
  s->state = SS_LISTEN; s->backlog = backlog < 0 ? 0 : backlog;
  ev("listen", s->id, backlog);
  return 0;
}

// connection establishment completes (or fails) as an event on the simulated clock
static void finish_connect(int cid) {
  SockObj *c = sock_by_id(cid);
  if (!c || c->state != SS_CONNECTING) return;
  SockObj *l = c->connecting_to;
  if (!l || l->state != SS_LISTEN) {
    c->state = SS_NEW; c->so_error = ECONNREFUSED; c->connect_done = true; c->connecting_to = nullptr; net().stats.refused++;
    wake_sock(c); return;
  }
  if (l->accept_q.size() >= (size_t)l->backlog + 1) {
    // backlog full: the SYN is dropped; retried later, gives up after ~130 s
    if (now_ns() - c->connect_started > 130ULL * 1000000000ULL) { c->state = SS_NEW; c->so_error = ETIMEDOUT; c->connect_done = true; c->connecting_to = nullptr; wake_sock(c); return; }
    net().stats.backlog_stalls++;
    probe("sock.backlog_stall");
    add_timer(now_ns() + 1000000000ULL, [cid]() { finish_connect(cid); });
    return;
  }
  SockObj *child = new SockObj();
  child->id = (int)net().socks.size(); child->domain = l->domain; child->type = SOCK_STREAM; child->state = SS_CONNECTED;
  child->local = l->local; if (addr_any(child->local)) memcpy(child->local.ip, c->peer_addr.ip, 16);
  child->bound = true; child->accepted_child = true;
  child->peer_addr = c->local; child->has_peer = true;
  child->sndbuf = l->sndbuf; child->rcvbuf = l->rcvbuf; child->nonblock = false;
  child->peer = c; c->peer = child;
  net().socks.push_back(child);
  l->accept_q.push_back(child);
  c->state = SS_CONNECTED; c->connect_done = true; c->connect_ok_unreported = true; c->connecting_to = nullptr;
  c->was_connected = child->was_connected = true;
  ev("connected", c->id, child->id);
  wake_sock(c); wake_sock(l);
}

int simk_connect(int fd, const struct sockaddr *sa, socklen_t len) {
  int n = sc_enter(SC_CONNECT);
  int err = 0; SockObj *s = cur_sock(fd, &err);
  if (!s) { errno = err; return -1; }
  if ((err = want_fail(SC_CONNECT, n))) { errno = err; return -1; }
  NAddr a;
  if (!from_sockaddr(sa, len, a)) { errno = EINVAL; return -1; }
  if (a.family != s->domain) { errno = EAFNOSUPPORT; return -1; }
  if (s->type == SOCK_DGRAM) { autobind(s); s->peer_addr = a; s->has_peer = true; return 0; }
  if (s->state == SS_LISTEN) { errno = EISCONN; return -1; }
  if (s->state == SS_CONNECTING) { errno = EALREADY; return -1; }
  if (s->state == SS_CONNECTED) {
    if (s->connect_ok_unreported) { s->connect_ok_unreported = false; return 0; }   // first connect() after asynchronous completion
    errno = EISCONN; return -1;
  }
  bool interrupted = want_eintr(SC_CONNECT, n);
  if (interrupted && choose(ST_EINTR, 2) == 0) { errno = EINTR; probe("eintr.connect_before_start"); return -1; }   // signal before anything happened
  autobind(s);
  s->peer_addr = a; s->has_peer = true; s->so_error = 0; s->connect_done = false; s->connect_ok_unreported = false;
  SockObj *l = nullptr;
  for (auto *o : net().socks) if (o->state == SS_LISTEN && o->fdrefs > 0 && o->type == SOCK_STREAM && addr_match(o->local, a)) l = o;
  s->state = SS_CONNECTING; s->connecting_to = l; s->connect_started = now_ns();
  uint64_t delay = 20000 + 1000ULL * choose(ST_NET, 200);
  if (cfg().p[ST_NET] > 0 && flip(ST_NET, cfg().p[ST_NET])) delay += 1000000ULL * (1 + choose(ST_NET, 50));
  int cid = s->id;
  add_timer(now_ns() + delay, [cid]() { finish_connect(cid); });
  ev("connect_start", s->id, l ? l->id : -1);
  if (interrupted) { errno = EINTR; probe("eintr.connect_after_start"); return -1; }
  if (!s->nonblock) {
    while (s->state == SS_CONNECTING) wait_sock(s, UINT64_MAX);
    if (s->state == SS_CONNECTED) { s->connect_ok_unreported = false; return 0; }
    errno = s->so_error; s->so_error = 0; return -1;
  }
  errno = EINPROGRESS;
  return -1;
}

int simk_accept(int fd, struct sockaddr *sa, socklen_t *len) {
  int n = sc_enter(SC_ACCEPT);
  Task *t = cur();
  int err = 0; SockObj *s = cur_sock(fd, &err);
  if (!s) { errno = err; return -1; }
  if ((err = want_fail(SC_ACCEPT, n))) { errno = err; return -1; }
  if (s->type != SOCK_STREAM) { errno = EOPNOTSUPP; return -1; }
  if (s->state != SS_LISTEN) { errno = EINVAL; return -1; }
  for (;;) {
    if (want_eintr(SC_ACCEPT, n)) { errno = EINTR; probe("eintr.accept"); return -1; }
    if (!s->accept_q.empty()) {
      if (cfg().p[ST_SHORT] > 0 && !k->faults_off && flip(ST_SHORT, cfg().p[ST_SHORT] * 0.5)) { errno = EAGAIN; probe("sock.eagain_after_poll"); net().stats.spurious_eagain++; return -1; }
      break;
    }
    if (s->nonblock) { errno = EAGAIN; return -1; }
    wait_sock(s, UINT64_MAX);
    if (s->state != SS_LISTEN) { errno = EBADF; return -1; }
    n = -1;
  }
  SockObj *c = s->accept_q.front(); s->accept_q.pop_front();
  FdEnt e; e.kind = FD_SOCK; e.sock = c; e.cloexec = false; e.nonblock = false;
  c->fdrefs = 1;
  int nfd = fd_alloc(proc_of(t->proc), e);
  if (sa && len) to_sockaddr(c->peer_addr, sa, len);
  ev("accept", s->id, c->id);
  return nfd;
}

static ssize_t do_send(int call, int fd, const void *buf, size_t len, int flags, const struct sockaddr *to, socklen_t tolen) {
  int n = sc_enter(call);
  Task *t = cur();
  int err = 0; SockObj *s = cur_sock(fd, &err);
  if (!s) { errno = err; return -1; }
  if ((err = want_fail(call, n))) { errno = err; return -1; }
  if (s->type == SOCK_DGRAM) {
    NAddr dst;
    if (to) { if (!from_sockaddr(to, tolen, dst)) { errno = EINVAL; return -1; } if (dst.family != s->domain) { errno = EAFNOSUPPORT; return -1; } }
    else if (s->has_peer) dst = s->peer_addr;
    else { errno = EDESTADDRREQ; return -1; }
    if (len > 65507) { errno = EMSGSIZE; return -1; }
    if (want_eintr(call, n)) { errno = EINTR; probe(call == SC_SENDTO ? "eintr.sendto" : "eintr.send"); return -1; }
    autobind(s);
    Dgram d; d.data.assign((const char *)buf, len); d.from = s->local;
    if (addr_any(d.from)) loopback_of(s->domain, d.from), d.from.port = s->local.port;
    d.serial = ++net().wire_seq;
    SockObj *dstsock = nullptr;
    for (auto *o : net().socks) if (o->type == SOCK_DGRAM && o->bound && o->fdrefs > 0 && addr_match(o->local, dst)) dstsock = o;
    net().stats.dgrams_sent++;
    ev("dgram_send", s->id, (int64_t)len);
    if (dstsock) {
      bool lose = false, dup = false; uint64_t delay = 0;
      if (k->net_faults && cfg().p[ST_NET] > 0) {
        if (flip(ST_NET, cfg().p[ST_NET] * 0.5)) { lose = true; net().stats.dgrams_lost++; }
        else if (flip(ST_NET, cfg().p[ST_NET] * 0.5)) { dup = true; net().stats.dgrams_dup++; }
        if (flip(ST_NET, cfg().p[ST_NET])) { delay = 1000ULL * (1 + choose(ST_NET, 5000)); net().stats.dgrams_delayed++; }
      }
      int did = dstsock->id;
      auto deliver = [did, d]() {
        SockObj *o = sock_by_id(did);
        if (!o || o->fdrefs <= 0) return;
        size_t used = 0; for (auto &x : o->dq) used += x.data.size() + 1;
        if (used + d.data.size() > (size_t)o->rcvbuf + 65536) { net().stats.dgrams_dropped_full++; return; }
        o->dq.push_back(d); wake_sock(o);
      };
      if (!lose) { if (delay) add_timer(now_ns() + delay, deliver); else deliver(); if (dup) add_timer(now_ns() + delay + 1000, deliver); }
    }
    return (ssize_t)len;
  }
  // stream
  if (s->state == SS_CONNECTING) { errno = EAGAIN; return -1; }
  if (s->state != SS_CONNECTED) {
    if (s->connect_done && s->so_error) { errno = s->so_error; s->so_error = 0; return -1; }
    // Linux: a stream socket that is not connected answers a write with EPIPE (and SIGPIPE unless suppressed)
    if (!(flags & MSG_NOSIGNAL) && !proc_of(t->proc).sigpipe_ignored) { k->sigpipes++; ev("SIGPIPE", s->id); }
    errno = EPIPE; return -1;
  }
  if (s->rx_rst) { s->rx_rst = false; errno = ECONNRESET; return -1; }
  if (s->shut_wr || s->peer_gone) {
    // writing to a peer that has gone: EPIPE, and SIGPIPE unless suppressed
    if (!(flags & MSG_NOSIGNAL) && !proc_of(t->proc).sigpipe_ignored) { k->sigpipes++; ev("SIGPIPE", s->id); }
    probe("sock.epipe");
    errno = EPIPE; return -1;
  }
  for (;;) {
    if (want_eintr(call, n)) { errno = EINTR; probe("eintr.send"); return -1; }
    size_t room = s->wire.size() < (size_t)s->sndbuf ? (size_t)s->sndbuf - s->wire.size() : 0;
    if (room > 0) {
      if (cfg().p[ST_SHORT] > 0 && !k->faults_off && flip(ST_SHORT, cfg().p[ST_SHORT] * 0.5)) { errno = EAGAIN; probe("sock.eagain_after_poll"); net().stats.spurious_eagain++; return -1; }
      size_t take = std::min(room, len);
      if (take > 1 && cfg().p[ST_SHORT] > 0 && !k->faults_off && flip(ST_SHORT, cfg().p[ST_SHORT])) { take = 1 + choose(ST_SHORT, (uint32_t)take - 1); }
      if (take < len) { probe("sock.short_send"); net().stats.short_sends++; }
      s->wire.insert(s->wire.end(), (const uint8_t *)buf, (const uint8_t *)buf + take);
      ev("stream_send", s->id, (int64_t)take);
      schedule_delivery(s);
      return (ssize_t)take;
    }
    probe("sock.send_buffer_full");
    if (s->nonblock || (flags & MSG_DONTWAIT)) { errno = EAGAIN; return -1; }
    wait_sock(s, UINT64_MAX);
    if (s->state != SS_CONNECTED || s->peer_gone) { errno = EPIPE; return -1; }
    n = -1;
  }
}
ssize_t simk_send(int fd, const void *buf, size_t len, int flags) { return do_send(SC_SEND, fd, buf, len, flags, nullptr, 0); }
ssize_t simk_sendto(int fd, const void *buf, size_t len, int flags, const struct sockaddr *to, socklen_t tolen) {
  int err = 0; SockObj *s = cur() ? cur_sock(fd, &err) : nullptr;
  if (s && s->type == SOCK_STREAM) to = nullptr;         // address ignored on connection-mode sockets
  return do_send(SC_SENDTO, fd, buf, len, flags, to, tolen);
}

static ssize_t do_recv(int call, int fd, void *buf, size_t len, int flags, struct sockaddr *from, socklen_t *fromlen) {
  int n = sc_enter(call);
  int err = 0; SockObj *s = cur_sock(fd, &err);
  if (!s) { errno = err; return -1; }
  if ((err = want_fail(call, n))) { errno = err; return -1; }
  for (;;) {
    if (want_eintr(call, n)) { errno = EINTR; probe(call == SC_RECV ? "eintr.recv" : "eintr.recvfrom"); return -1; }
    if (s->type == SOCK_DGRAM) {
      if (!s->dq.empty()) {
        if (cfg().p[ST_SHORT] > 0 && !k->faults_off && flip(ST_SHORT, cfg().p[ST_SHORT] * 0.5)) { errno = EAGAIN; probe("sock.eagain_after_poll"); net().stats.spurious_eagain++; return -1; }
        size_t idx = 0;
        if (k->net_faults && s->dq.size() > 1 && cfg().p[ST_NET] > 0 && flip(ST_NET, cfg().p[ST_NET])) { idx = 1 + choose(ST_NET, (uint32_t)s->dq.size() - 1); net().stats.dgrams_reordered++; }
        Dgram d = s->dq[idx]; s->dq.erase(s->dq.begin() + idx);
        size_t take = std::min(len, d.data.size());
        memcpy(buf, d.data.data(), take);
        if (take < d.data.size()) probe("sock.dgram_truncated");
        if (from && fromlen) to_sockaddr(d.from, from, fromlen);
        ev("dgram_recv", s->id, (int64_t)take);
        if (flags & MSG_TRUNC) return (ssize_t)d.data.size();      // Linux: the real length of the datagram, however short the buffer
        return (ssize_t)take;
      }
    } else {
      if (s->state == SS_LISTEN || (s->state != SS_CONNECTED && !s->was_connected && !s->connect_done)) { errno = ENOTCONN; return -1; }
      if (s->state == SS_CONNECTING) { errno = EAGAIN; return -1; }
      if (s->shut_rd) return 0;
      if (!s->rx.empty()) {
        if (cfg().p[ST_SHORT] > 0 && !k->faults_off && flip(ST_SHORT, cfg().p[ST_SHORT] * 0.5)) { errno = EAGAIN; probe("sock.eagain_after_poll"); net().stats.spurious_eagain++; return -1; }
        size_t take = std::min(len, s->rx.size());
        if (take > 1 && cfg().p[ST_SHORT] > 0 && !k->faults_off && flip(ST_SHORT, cfg().p[ST_SHORT])) { take = 1 + choose(ST_SHORT, (uint32_t)take - 1); probe("sock.short_recv"); }
        std::copy(s->rx.begin(), s->rx.begin() + take, (uint8_t *)buf);
        s->rx.erase(s->rx.begin(), s->rx.begin() + take);
        if (from && fromlen) *fromlen = 0;
        ev("stream_recv", s->id, (int64_t)take);
        if (s->peer && !s->peer->wire.empty()) deliver_stream(s->peer);    // window opened
        return (ssize_t)take;
      }
      if (s->rx_rst) { s->rx_rst = false; s->rx_fin = true; errno = ECONNRESET; return -1; }
      if (s->rx_fin) { if (from && fromlen) *fromlen = 0; return 0; }
      if (s->state != SS_CONNECTED) { errno = ENOTCONN; return -1; }
    }
    if (s->nonblock || (flags & MSG_DONTWAIT)) { errno = EAGAIN; return -1; }
    wait_sock(s, UINT64_MAX);
    n = -1;
  }
}
ssize_t simk_recv(int fd, void *buf, size_t len, int flags) { return do_recv(SC_RECV, fd, buf, len, flags, nullptr, nullptr); }
ssize_t simk_recvfrom(int fd, void *buf, size_t len, int flags, struct sockaddr *from, socklen_t *fromlen) { return do_recv(SC_RECVFROM, fd, buf, len, flags, from, fromlen); }

int simk_shutdown(int fd, int how) {
  int n = sc_enter(SC_SHUTDOWN);
  int err = 0; SockObj *s = cur_sock(fd, &err);
  if (!s) { errno = err; return -1; }
  if ((err = want_fail(SC_SHUTDOWN, n))) { errno = err; return -1; }
  if (s->type == SOCK_STREAM && s->state != SS_CONNECTED) { errno = ENOTCONN; return -1; }
  if (s->type == SOCK_DGRAM && !s->has_peer) { errno = ENOTCONN; return -1; }
  if (how == SHUT_RD || how == SHUT_RDWR) { s->shut_rd = true; s->rx.clear(); }
  if (how == SHUT_WR || how == SHUT_RDWR) {
    if (!s->shut_wr && s->type == SOCK_STREAM) { s->shut_wr = true; if (s->wire.empty()) { if (s->peer) { s->peer->rx_fin = true; wake_sock(s->peer); } } else s->fin_pending = true; }
    s->shut_wr = true;
  }
  ev("shutdown", s->id, how);
  wake_sock(s);
  return 0;
}

int simk_poll(struct pollfd *fds, nfds_t nfds, int timeout_ms) {
  int n = sc_enter(SC_POLL);
  Task *t = cur(); if (!t) return 0;
  if (nfds != 1) { errno = EINVAL; return -1; }      // the library polls one descriptor at a time
  int err = 0;
  FdEnt *e = fd_get(fds[0].fd);
  if (fds[0].fd < 0) { fds[0].revents = 0; e = nullptr; }
  else if (!e) { fds[0].revents = POLLNVAL; return 1; }
  (void)err;
  SockObj *s = e && e->kind == FD_SOCK ? e->sock : nullptr;
  uint64_t start = now_ns();
  uint64_t deadline = timeout_ms < 0 ? UINT64_MAX : start + (uint64_t)timeout_ms * 1000000ULL;
  bool first = true;
  for (;;) {
    short r = s ? poll_events(s, fds[0].events) : 0;
    if (r) { fds[0].revents = r; ev("poll_ready", s->id, r); return 1; }
    if (timeout_ms == 0 || now_ns() >= deadline) { fds[0].revents = 0; probe("sock.poll_timed_out"); ev("poll_timeout", s ? s->id : -1); return 0; }
    // would block: a handled signal interrupts the wait at some instant before the deadline
    if (want_eintr(SC_POLL, first ? n : -1)) {
      if (deadline != UINT64_MAX) { uint64_t left = deadline - now_ns(); sleep_until(now_ns() + left * (1 + choose(ST_EINTR, 7)) / 8); }
      probe("eintr.poll");
      errno = EINTR; return -1;
    }
    first = false;
    if (!s) { if (deadline == UINT64_MAX) infra_error("poll on nothing for ever"); sleep_until(deadline); continue; }
    uint64_t dl = deadline;
    if (dl != UINT64_MAX && cfg().p[ST_TIMER] > 0 && flip(ST_TIMER, cfg().p[ST_TIMER])) dl += 1000ULL * (1 + choose(ST_TIMER, 5000));   // late, never early
    probe("sock.poll_blocked");
    wait_sock(s, dl);
    if (dl != deadline && now_ns() >= deadline) deadline = std::min(deadline, now_ns());
  }
}

}  // extern "C"
