// Driver binary: worker loop, investigator (forked reproduce + shrink), replay.
#include "sim.h"
#include "core.h"
#include <errno.h>
#include <signal.h>
#include <stdio.h>
#include <stdlib.h>
#include <string.h>
#include <sys/mman.h>
#include <sys/wait.h>
#include <time.h>
#include <unistd.h>
#include <fcntl.h>
#include <set>
#include <unordered_set>
#include <sstream>
#include <fstream>

#ifndef SIM_VARIANT
#define SIM_VARIANT "unknown"
#endif

namespace sim {
const char *g_variant = SIM_VARIANT;
int g_tier = 0;
}
using namespace sim;

#ifdef SIM_ASAN
extern "C" __attribute__((used, visibility("default"))) const char *__asan_default_options() {
  return "exitcode=77:detect_leaks=0:detect_stack_use_after_return=0:handle_segv=0:handle_abort=0:handle_sigbus=0:handle_sigfpe=0:allocator_may_return_null=1:abort_on_error=0";
}
#endif
extern "C" __attribute__((used, visibility("default"))) const char *__ubsan_default_options() {
  return "halt_on_error=1:exitcode=76:print_stacktrace=0";
}

// ------------------------------------------------------------------ small JSON helpers
static std::string jesc(const std::string &s) {
  std::string o;
  for (unsigned char c : s) {
    if (c == '"' || c == '\\') { o += '\\'; o += (char)c; }
    else if (c == '\n') o += "\\n";
    else if (c < 0x20) { char b[8]; snprintf(b, sizeof b, "\\u%04x", c); o += b; }
    else o += (char)c;
  }
  return o;
}
static std::string hex64(uint64_t v) { char b[32]; snprintf(b, sizeof b, "0x%016llx", (unsigned long long)v); return b; }

struct JVal {
  enum T { NUL, NUM, STR, ARR, OBJ, BOOL } t = NUL;
  double num = 0; std::string str; std::vector<JVal> arr; std::vector<std::pair<std::string, JVal>> obj; bool b = false;
  const JVal *get(const char *k) const { for (auto &p : obj) if (p.first == k) return &p.second; return nullptr; }
};
struct JParser {
  const char *p;
  void ws() { while (*p == ' ' || *p == '\n' || *p == '\t' || *p == '\r') p++; }
  bool parse(JVal &v) {
    ws();
    if (*p == '{') { p++; v.t = JVal::OBJ; ws(); if (*p == '}') { p++; return true; }
      for (;;) { JVal k; if (!parse(k) || k.t != JVal::STR) return false; ws(); if (*p != ':') return false; p++; JVal x; if (!parse(x)) return false;
        v.obj.push_back({k.str, x}); ws(); if (*p == ',') { p++; continue; } if (*p == '}') { p++; return true; } return false; } }
    if (*p == '[') { p++; v.t = JVal::ARR; ws(); if (*p == ']') { p++; return true; }
      for (;;) { JVal x; if (!parse(x)) return false; v.arr.push_back(x); ws(); if (*p == ',') { p++; continue; } if (*p == ']') { p++; return true; } return false; } }
    if (*p == '"') { p++; v.t = JVal::STR; while (*p && *p != '"') { if (*p == '\\') { p++; if (*p == 'n') v.str += '\n'; else if (*p == 'u') { p += 4; v.str += '?'; } else v.str += *p; p++; } else v.str += *p++; } if (*p != '"') return false; p++; return true; }
    if (!strncmp(p, "true", 4)) { p += 4; v.t = JVal::BOOL; v.b = true; return true; }
    if (!strncmp(p, "false", 5)) { p += 5; v.t = JVal::BOOL; v.b = false; return true; }
    if (!strncmp(p, "null", 4)) { p += 4; v.t = JVal::NUL; return true; }
    char *e; v.num = strtod(p, &e); if (e == p) return false; p = e; v.t = JVal::NUM; return true;
  }
};

// ------------------------------------------------------------------ result plumbing
static void fill_shared(Shared *sh, const Run &r) {
  sh->status = r.res.status; sh->clean = r.res.clean;
  snprintf(sh->cls, sizeof sh->cls, "%s", r.res.cls.c_str());
  snprintf(sh->key, sizeof sh->key, "%s", r.res.key.c_str());
  snprintf(sh->rmsg, sizeof sh->rmsg, "%s", r.res.msg.c_str());
  snprintf(sh->api, sizeof sh->api, "%s", r.res.api.c_str());
  sh->steps = r.res.steps; sh->switches = r.res.switches; sh->log_hash = r.res.log_hash; sh->order_hash = r.res.order_hash; sh->sim_ns = r.res.sim_ns;
  for (int i = 0; i < ST_MAX; i++) sh->fired[i] = r.res.fired[i];
  snprintf(sh->desc, sizeof sh->desc, "%s", r.desc.c_str());
}
static void read_shared_decisions(const Shared *sh, Decisions &eff) {
  for (int i = 0; i < ST_MAX; i++) eff.v[i].assign(sh->sdec[i], sh->sdec[i] + sh->sn[i]);
}
static void read_shared(const Shared *sh, Result &res, Decisions &eff, std::string &desc) {
  res.status = (RunStatus)sh->status; res.clean = sh->clean; res.cls = sh->cls; res.key = sh->key; res.msg = sh->rmsg; res.api = sh->api;
  res.steps = sh->steps; res.switches = sh->switches; res.log_hash = sh->log_hash; res.order_hash = sh->order_hash; res.sim_ns = sh->sim_ns;
  for (int i = 0; i < ST_MAX; i++) res.fired[i] = sh->fired[i];
  desc = sh->desc;
  read_shared_decisions(sh, eff);
}

static Shared *g_shared = nullptr;
static int g_forks = 0;

// run one candidate in a forked child; classify crashes
static bool run_forked(const HarnessDef *h, uint64_t seed, const Decisions *replay, Result &res, Decisions &eff, std::string &desc, const char *stderr_path = nullptr, bool trace = false, std::vector<std::string> *trace_out = nullptr) {
  if (!g_shared) {
    g_shared = (Shared *)mmap(nullptr, sizeof(Shared), PROT_READ | PROT_WRITE, MAP_SHARED | MAP_ANONYMOUS, -1, 0);
    if (g_shared == MAP_FAILED) { perror("mmap shared"); exit(2); }
  }
  memset(g_shared, 0, offsetof(Shared, sdec));
  int tracepipe[2] = {-1, -1};
  if (trace_out && pipe(tracepipe) != 0) { perror("pipe"); exit(2); }
  fflush(stdout); fflush(stderr);
  g_forks++;
  pid_t pid = fork();
  if (pid < 0) { perror("fork"); exit(2); }
  if (pid == 0) {
    int fd = open(stderr_path ? stderr_path : "/dev/null", O_WRONLY | O_CREAT | O_TRUNC, 0644);
    if (fd >= 0) { dup2(fd, 2); dup2(fd, 1); close(fd); }
    alarm(20);
    g_shared->started = 1;
    Run out;
    run_one(h, seed, replay, trace, g_shared, &out);
    fill_shared(g_shared, out);
    g_shared->finished = 1;
    if (trace_out) {
      close(tracepipe[0]);
      FILE *f = fdopen(tracepipe[1], "w");
      size_t from = out.trace_lines.size() > 400 ? out.trace_lines.size() - 400 : 0;
      for (size_t i = from; i < out.trace_lines.size(); i++) fprintf(f, "%s\n", out.trace_lines[i].c_str());
      fclose(f);
    }
    _exit(0);
  }
  if (trace_out) {
    close(tracepipe[1]);
    FILE *f = fdopen(tracepipe[0], "r");
    char line[512];
    while (fgets(line, sizeof line, f)) { size_t n = strlen(line); if (n && line[n - 1] == '\n') line[n - 1] = 0; trace_out->push_back(line); }
    fclose(f);
  }
  int st = 0;
  waitpid(pid, &st, 0);
  if (g_shared->finished) { read_shared(g_shared, res, eff, desc); return true; }
  // abnormal death
  res = Result();
  desc = g_shared->desc;
  std::string api = g_shared->cur_api;
  if (g_shared->infra || (WIFEXITED(st) && WEXITSTATUS(st) == 2)) { res.status = RS_INCONCLUSIVE; res.cls = "infra"; res.msg = g_shared->msg; return false; }
  std::string how;
  if (WIFSIGNALED(st)) { int sg = WTERMSIG(st); how = sg == SIGSEGV ? "SIGSEGV" : sg == SIGBUS ? "SIGBUS" : sg == SIGABRT ? "SIGABRT" : sg == SIGFPE ? "SIGFPE" : sg == SIGALRM ? "HANG" : "SIG" + std::to_string(sg); }
  else if (WIFEXITED(st) && WEXITSTATUS(st) == 77) how = "ASAN";
  else if (WIFEXITED(st) && WEXITSTATUS(st) == 76) how = "UBSAN";
  else how = "EXIT" + std::to_string(WIFEXITED(st) ? WEXITSTATUS(st) : -1);
  if (api.empty()) { res.status = RS_INCONCLUSIVE; res.cls = "infra"; res.msg = "worker died (" + how + ") outside any library call"; return false; }
  res.status = RS_VIOLATION;
  res.cls = how == "HANG" ? "hang" : "crash";
  res.key = how + " in " + api;
  res.api = api;
  res.msg = "process died (" + how + ") inside library call " + api;
  // decisions consumed up to the crash were streamed into shared memory
  read_shared_decisions(g_shared, eff);
  if (g_shared->overflow) eff = replay ? *replay : Decisions();
  return true;
}

// ------------------------------------------------------------------ shrinking
struct Shrinker {
  const HarnessDef *h; uint64_t seed;
  std::string cls, key;
  Decisions best; Result best_res; std::string best_desc;
  int runs = 0, budget = 1500; double deadline;
  bool crashy;
  static double now() { struct timespec ts; clock_gettime(CLOCK_MONOTONIC, &ts); return ts.tv_sec + ts.tv_nsec * 1e-9; }
  bool out_of_budget() { return runs >= budget || now() > deadline; }
  bool try_cand(const Decisions &c) {
    if (out_of_budget()) return false;
    runs++;
    Result r; Decisions eff; std::string d;
    run_forked(h, seed, &c, r, eff, d);
    if (r.status == RS_VIOLATION && r.cls == cls && r.key == key) {
      best = eff;
      for (auto &v : best.v) while (!v.empty() && v.back() == 0) v.pop_back();   // an exhausted stream yields 0: trailing zeros are redundant
      best_res = r; best_desc = d;
      return true;
    }
    return false;
  }
  void shrink() {
    static const int order[] = {ST_GEN, ST_ALLOC, ST_SYSCALL, ST_KILL, ST_EINTR, ST_SHORT, ST_NET, ST_SIGNAL, ST_TIMER, ST_SPURIOUS, ST_RWPREF, ST_STOREBUF, ST_WAKE, ST_SCHED};
    bool progress = true;
    int rounds = 0;
    while (progress && !out_of_budget() && rounds++ < 6) {
      progress = false;
      for (int s : order) {
        // 1. truncate tail
        for (;;) {
          size_t n = best.v[s].size();
          if (n == 0) break;
          bool ok = false;
          for (size_t cut : {(size_t)0, n / 2, n - n / 4, n - 1}) {
            if (cut >= n) continue;
            Decisions c = best; c.v[s].resize(cut);
            if (try_cand(c)) { ok = true; progress = true; break; }
          }
          if (!ok || out_of_budget()) break;
        }
        // 2. zero chunks
        for (size_t chunk = std::max<size_t>(best.v[s].size() / 2, 1); chunk >= 1; chunk /= 2) {
          for (size_t i = 0; i < best.v[s].size(); i += chunk) {
            bool any = false;
            Decisions c = best;
            for (size_t j = i; j < i + chunk && j < c.v[s].size(); j++) if (c.v[s][j]) { c.v[s][j] = 0; any = true; }
            if (!any) continue;
            if (try_cand(c)) progress = true;
            if (out_of_budget()) break;
          }
          if (chunk == 1 || out_of_budget()) break;
        }
        // 3. delete chunks (generation stream and fault streams: removes operations)
        if (s != ST_SCHED) {
          for (size_t chunk = std::max<size_t>(best.v[s].size() / 2, 1); chunk >= 1; chunk /= 2) {
            for (size_t i = 0; i + chunk <= best.v[s].size();) {
              Decisions c = best;
              c.v[s].erase(c.v[s].begin() + i, c.v[s].begin() + i + chunk);
              if (try_cand(c)) progress = true; else i += chunk;
              if (out_of_budget()) break;
            }
            if (chunk == 1 || out_of_budget()) break;
          }
        }
        // 4. lower individual values
        if (s == ST_GEN || s == ST_WAKE) {
          for (size_t i = 0; i < best.v[s].size() && !out_of_budget(); i++) {
            uint32_t v = best.v[s][i];
            if (v <= 1) continue;
            for (uint32_t nv : {v / 2, v - 1}) {
              Decisions c = best; if (i >= c.v[s].size()) break; c.v[s][i] = nv;
              if (try_cand(c)) { progress = true; break; }
            }
          }
        }
      }
    }
  }
};

// ------------------------------------------------------------------ replay file
static std::string decisions_json(const Decisions &d) {
  std::ostringstream o;
  o << "{";
  bool first = true;
  for (int s = 0; s < ST_MAX; s++) {
    if (d.v[s].empty()) continue;
    if (!first) o << ",";
    first = false;
    o << "\"" << stream_names[s] << "\":[";
    for (size_t i = 0; i < d.v[s].size(); i++) { if (i) o << ","; o << d.v[s][i]; }
    o << "]";
  }
  o << "}";
  return o.str();
}
static bool decisions_from_json(const JVal &j, Decisions &d) {
  if (j.t != JVal::OBJ) return false;
  for (auto &kv : j.obj) {
    int s = -1;
    for (int i = 0; i < ST_MAX; i++) if (kv.first == stream_names[i]) s = i;
    if (s < 0 || kv.second.t != JVal::ARR) return false;
    for (auto &x : kv.second.arr) d.v[s].push_back((uint32_t)x.num);
  }
  return true;
}

static std::string result_json(const Result &r) {
  std::ostringstream o;
  o << "\"status\":\"" << (r.status == RS_OK ? "ok" : r.status == RS_VIOLATION ? "violation" : "inconclusive") << "\",\"class\":\"" << jesc(r.cls)
    << "\",\"key\":\"" << jesc(r.key) << "\",\"msg\":\"" << jesc(r.msg) << "\",\"api\":\"" << jesc(r.api) << "\",\"steps\":" << r.steps << ",\"switches\":" << r.switches
    << ",\"log_hash\":\"" << hex64(r.log_hash) << "\"";
  return o.str();
}

static uint64_t run_seed(uint64_t base, uint64_t index) { return splitmix(base, index); }

// ------------------------------------------------------------------ modes
static int mode_list() {
  for (auto *h : all_harnesses()) printf("%s %s\n", h->name, h->property);
  return 0;
}

struct Args {
  std::string harness, progress, hashes, out, replay, dump;
  uint64_t seed = 1, start = 0, stride = 1, count = 0, index = 0;
  double time_budget = 0;
  int tier = 0;
  bool trace = false;
  int samples = 0;
};

static int mode_run(const Args &a) {
  const HarnessDef *h = find_harness(a.harness.c_str());
  if (!h) { fprintf(stderr, "unknown harness %s\n", a.harness.c_str()); return 2; }
  g_tier = a.tier;
  volatile uint64_t *prog = nullptr;
  if (!a.progress.empty()) {
    int fd = open(a.progress.c_str(), O_RDWR | O_CREAT | O_TRUNC, 0644);
    if (fd < 0 || ftruncate(fd, 16) != 0) { perror("progress"); return 2; }
    prog = (volatile uint64_t *)mmap(nullptr, 16, PROT_READ | PROT_WRITE, MAP_SHARED, fd, 0);
    close(fd);
  }
  FILE *dumpf = a.dump.empty() ? nullptr : fopen(a.dump.c_str(), "w");
  double t0 = Shrinker::now();
  uint64_t runs = 0, steps = 0, switches = 0, sim_ns = 0, inconclusive = 0, nontrivial = 0, spin_blocks = 0;
  uint64_t fired_tot[ST_MAX] = {0};
  std::map<std::string, uint64_t> probes;
  std::unordered_set<uint64_t> distinct;
  uint64_t det_reruns = 0, det_mismatch = 0;
  int exitcode = 0;
  uint64_t i = a.start;
  uint64_t last_index = a.start;
  signal(SIGALRM, [](int) { _exit(5); });      // real-time watchdog: a run that never reaches a scheduling point again
  for (uint64_t n = 0; (a.count == 0 || n < a.count); n++, i += a.stride) {
    if ((n & 63) == 0) alarm(45);
    if (a.time_budget > 0 && (n & 7) == 0 && Shrinker::now() - t0 > a.time_budget) break;
    if (prog) { prog[0] = i; prog[1] = 1; }
    uint64_t seed = run_seed(a.seed, i);
    Run out;
    run_one(h, seed, nullptr, false, nullptr, &out);
    last_index = i;
    runs++;
    if (dumpf) fprintf(dumpf, "%llu %016llx %d %llu\n", (unsigned long long)i, (unsigned long long)out.res.log_hash, (int)out.res.status, (unsigned long long)out.res.steps);
    steps += out.res.steps; switches += out.res.switches; sim_ns += out.res.sim_ns; spin_blocks += out.res.spin_blocks;
    uint64_t nf = 0;
    for (int s = 0; s < ST_MAX; s++) { fired_tot[s] += out.res.fired[s]; nf += out.res.fired[s]; }
    for (auto &kv : out.probes) probes[kv.first] += kv.second;
    if (out.res.switches > 1 || nf > 0) { nontrivial++; distinct.insert(out.res.order_hash ^ (out.res.log_hash * 0x9e3779b97f4a7c15ULL)); }
    if ((int)n < a.samples) {
      printf("{\"type\":\"sample\",\"index\":%llu,\"seed\":\"%s\",\"variant\":\"%s\",\"workload\":\"%s\",\"policy\":%d,%s}\n", (unsigned long long)i, hex64(seed).c_str(), g_variant,
             jesc(out.desc).c_str(), (int)out.cfg.policy, result_json(out.res).c_str());
    }
    if (out.res.status != RS_OK || !out.res.clean) {
      if (out.res.status == RS_INCONCLUSIVE) inconclusive++;
      printf("{\"type\":\"event\",\"index\":%llu,\"seed\":\"%s\",%s}\n", (unsigned long long)i, hex64(seed).c_str(), result_json(out.res).c_str());
      exitcode = 3;   // process state is no longer trustworthy: the driver restarts us after this index
      break;
    }
    // determinism sample: every 64th run is replayed from its recorded decisions and must hash identically
    if ((n % 64) == 5) {
      Run out2;
      run_one(h, seed, &out.eff, false, nullptr, &out2);
      det_reruns++;
      if (out2.res.log_hash != out.res.log_hash || out2.res.status != out.res.status) {
        det_mismatch++;
        printf("{\"type\":\"nondeterminism\",\"index\":%llu,\"seed\":\"%s\",\"h1\":\"%s\",\"h2\":\"%s\"}\n", (unsigned long long)i, hex64(seed).c_str(), hex64(out.res.log_hash).c_str(), hex64(out2.res.log_hash).c_str());
        exitcode = 2;
        break;
      }
      if (!out2.res.clean) { exitcode = 3; break; }
    }
  }
  alarm(0);
  if (dumpf) fclose(dumpf);
  if (prog) prog[1] = 0;
  if (!a.hashes.empty()) {
    FILE *f = fopen(a.hashes.c_str(), "ab");
    if (f) { for (uint64_t x : distinct) fwrite(&x, 8, 1, f); fclose(f); }
  }
  std::ostringstream o;
  o << "{\"type\":\"summary\",\"variant\":\"" << g_variant << "\",\"runs\":" << runs << ",\"last_index\":" << last_index << ",\"steps\":" << steps << ",\"switches\":" << switches
    << ",\"sim_ns\":" << sim_ns << ",\"nontrivial\":" << nontrivial << ",\"distinct\":" << distinct.size() << ",\"inconclusive\":" << inconclusive << ",\"spin_blocks\":" << spin_blocks
    << ",\"wall_s\":" << (Shrinker::now() - t0) << ",\"det_reruns\":" << det_reruns << ",\"det_mismatch\":" << det_mismatch << ",\"fired\":{";
  bool first = true;
  for (int s = 1; s < ST_MAX; s++) { if (!fired_tot[s] && s != ST_SCHED) continue; if (!first) o << ","; first = false; o << "\"" << stream_names[s] << "\":" << (s == ST_SCHED ? switches : fired_tot[s]); }
  o << "},\"probes\":{";
  first = true;
  for (auto &kv : probes) { if (!first) o << ","; first = false; o << "\"" << jesc(kv.first) << "\":" << kv.second; }
  o << "}}";
  printf("%s\n", o.str().c_str());
  fflush(stdout);
  return exitcode;
}

static bool write_replay(const std::string &path, const HarnessDef *h, const Args &a, uint64_t seed, const Decisions &d, const Result &r, const std::string &desc,
                         size_t from_dec, int reruns, const std::vector<std::string> &trace, const std::string &report) {
  std::ostringstream o;
  o << "{\n \"property\":\"" << h->property << "\",\n \"harness\":\"" << h->name << "\",\n \"variant\":\"" << g_variant << "\",\n \"tier\":" << a.tier
    << ",\n \"base_seed\":" << a.seed << ",\n \"index\":" << a.index << ",\n \"seed\":\"" << hex64(seed) << "\",\n \"violation\":{\"class\":\"" << jesc(r.cls) << "\",\"key\":\"" << jesc(r.key)
    << "\",\"api\":\"" << jesc(r.api) << "\",\"msg\":\"" << jesc(r.msg) << "\"},\n \"log_hash\":\"" << hex64(r.log_hash) << "\",\n \"workload\":\"" << jesc(desc) << "\",\n \"decisions\":"
    << decisions_json(d) << ",\n \"minimised\":{\"from_decisions\":" << from_dec << ",\"to_decisions\":" << d.total() << ",\"reruns\":" << reruns << "},\n \"sanitizer_report\":\"" << jesc(report)
    << "\",\n \"trace_tail\":[";
  for (size_t i = 0; i < trace.size(); i++) { if (i) o << ","; o << "\n  \"" << jesc(trace[i]) << "\""; }
  o << "\n ]\n}\n";
  std::ofstream f(path);
  if (!f) return false;
  f << o.str();
  return true;
}

static std::string slurp(const std::string &p, size_t max = 6000) {
  std::ifstream f(p);
  std::stringstream ss; ss << f.rdbuf();
  std::string s = ss.str();
  if (s.size() > max) s.resize(max);
  return s;
}

static int mode_investigate(const Args &a) {
  const HarnessDef *h = find_harness(a.harness.c_str());
  if (!h) return 2;
  g_tier = a.tier;
  uint64_t seed = run_seed(a.seed, a.index);
  Result r; Decisions eff; std::string desc;
  run_forked(h, seed, nullptr, r, eff, desc);
  if (r.status != RS_VIOLATION) {
    printf("{\"type\":\"investigate\",\"reproduced\":false,%s}\n", result_json(r).c_str());
    return 2;
  }
  bool crashy = r.cls == "crash" || r.cls == "hang";
  Shrinker sh;
  sh.h = h; sh.seed = seed; sh.cls = r.cls; sh.key = r.key; sh.best = eff; sh.best_res = r; sh.best_desc = desc; sh.crashy = crashy;
  sh.deadline = Shrinker::now() + (a.time_budget > 0 ? a.time_budget : 25);
  size_t from = eff.total();
  bool by_seed_only = crashy && eff.total() == 0;
  if (!by_seed_only) sh.shrink();
  // determinism gate in fresh children: two executions of the final list must agree
  Result r1, r2; Decisions e1, e2; std::string d1, d2;
  std::vector<std::string> trace;
  std::string errpath = a.out + ".stderr";
  const Decisions *final_dec = by_seed_only ? nullptr : &sh.best;
  run_forked(h, seed, final_dec, r1, e1, d1, errpath.c_str(), true, &trace);
  run_forked(h, seed, final_dec, r2, e2, d2);
  std::string report = slurp(errpath);
  unlink(errpath.c_str());
  bool same = r1.status == RS_VIOLATION && r2.status == RS_VIOLATION && r1.cls == sh.cls && r2.cls == sh.cls && r1.key == sh.key && r2.key == sh.key && r1.log_hash == r2.log_hash;
  if (!same) {
    printf("{\"type\":\"investigate\",\"reproduced\":false,\"why\":\"final candidate does not replay identically\",%s}\n", result_json(r1).c_str());
    return 2;
  }
  Decisions outd = by_seed_only ? Decisions() : sh.best;
  if (!write_replay(a.out, h, a, seed, outd, r1, d1.empty() ? sh.best_desc : d1, from, sh.runs, trace, report)) { perror("write replay"); return 2; }
  printf("{\"type\":\"investigate\",\"reproduced\":true,\"replay\":\"%s\",\"by_seed_only\":%s,\"shrink_runs\":%d,\"from_decisions\":%zu,\"to_decisions\":%zu,%s}\n", jesc(a.out).c_str(),
         by_seed_only ? "true" : "false", sh.runs, from, outd.total(), result_json(r1).c_str());
  return 0;
}

static int mode_replay(const Args &a) {
  std::string txt = slurp(a.replay, 1 << 26);
  JVal j; JParser p{txt.c_str()};
  if (!p.parse(j) || j.t != JVal::OBJ) { fprintf(stderr, "cannot parse %s\n", a.replay.c_str()); return 2; }
  const JVal *jh = j.get("harness"), *jd = j.get("decisions"), *js = j.get("seed"), *jt = j.get("tier"), *jv = j.get("violation"), *jvar = j.get("variant");
  if (!jh || !jd || !js) { fprintf(stderr, "replay file lacks fields\n"); return 2; }
  if (jvar && jvar->str != g_variant) { fprintf(stderr, "replay file is for variant %s, this binary is %s\n", jvar->str.c_str(), g_variant); return 2; }
  const HarnessDef *h = find_harness(jh->str.c_str());
  if (!h) { fprintf(stderr, "unknown harness\n"); return 2; }
  g_tier = jt ? (int)jt->num : 0;
  uint64_t seed = strtoull(js->str.c_str(), nullptr, 0);
  Decisions d;
  if (!decisions_from_json(*jd, d)) { fprintf(stderr, "bad decisions\n"); return 2; }
  bool by_seed = d.total() == 0;
  // run in a forked child so that crashes are classified the same way as during investigation
  Result r; Decisions eff; std::string desc; std::vector<std::string> trace;
  run_forked(h, seed, by_seed ? nullptr : &d, r, eff, desc, a.trace ? "/dev/stderr" : nullptr, a.trace, a.trace ? &trace : nullptr);
  if (a.trace) for (auto &l : trace) fprintf(stderr, "%s\n", l.c_str());
  std::string ecls = jv && jv->get("class") ? jv->get("class")->str : "", ekey = jv && jv->get("key") ? jv->get("key")->str : "";
  bool same = r.status == RS_VIOLATION && r.cls == ecls && r.key == ekey;
  printf("{\"type\":\"replay\",\"property\":\"%s\",\"reproduced\":%s,\"workload\":\"%s\",%s}\n", h->property, same ? "true" : "false", jesc(desc).c_str(), result_json(r).c_str());
  if (r.cls == "infra") return 2;
  return r.status == RS_VIOLATION ? 1 : 0;
}

int main(int argc, char **argv) {
  setvbuf(stdout, nullptr, _IOLBF, 0);
  if (argc < 2) { fprintf(stderr, "usage: %s list|run|investigate|replay ...\n", argv[0]); return 2; }
  std::string mode = argv[1];
  Args a;
  for (int i = 2; i < argc; i++) {
    std::string k = argv[i];
    auto val = [&]() -> const char * { if (i + 1 >= argc) { fprintf(stderr, "missing value for %s\n", k.c_str()); exit(2); } return argv[++i]; };
    if (k == "--harness") a.harness = val();
    else if (k == "--seed") a.seed = strtoull(val(), nullptr, 0);
    else if (k == "--start") a.start = strtoull(val(), nullptr, 0);
    else if (k == "--stride") a.stride = strtoull(val(), nullptr, 0);
    else if (k == "--count") a.count = strtoull(val(), nullptr, 0);
    else if (k == "--index") a.index = strtoull(val(), nullptr, 0);
    else if (k == "--time") a.time_budget = atof(val());
    else if (k == "--tier") a.tier = atoi(val());
    else if (k == "--progress") a.progress = val();
    else if (k == "--hashes") a.hashes = val();
    else if (k == "--out") a.out = val();
    else if (k == "--dump") a.dump = val();
    else if (k == "--file") a.replay = val();
    else if (k == "--samples") a.samples = atoi(val());
    else if (k == "--trace") a.trace = true;
    else { fprintf(stderr, "unknown option %s\n", k.c_str()); return 2; }
  }
  alloc::install();
  if (mode == "list") return mode_list();
  if (mode == "run") return mode_run(a);
  if (mode == "investigate") return mode_investigate(a);
  if (mode == "replay") return mode_replay(a);
  if (mode == "conform") { extern int conform_main(); return conform_main(); }
  if (mode == "dtest") {   // debugging aid: run one index twice (generate, then replay its decisions) and print the first differing trace line
    const HarnessDef *h = find_harness(a.harness.c_str());
    if (!h) return 2;
    g_tier = a.tier;
    uint64_t seed = run_seed(a.seed, a.index);
    Run o1, o2;
    run_one(h, seed, nullptr, true, nullptr, &o1);
    run_one(h, seed, &o1.eff, true, nullptr, &o2);
    size_t n = std::min(o1.trace_lines.size(), o2.trace_lines.size());
    size_t i = 0;
    while (i < n && o1.trace_lines[i] == o2.trace_lines[i]) i++;
    printf("lines %zu / %zu, first difference at %zu\n", o1.trace_lines.size(), o2.trace_lines.size(), i);
    for (size_t k = i > 12 ? i - 12 : 0; k < i + 6; k++) {
      printf("A: %s\n", k < o1.trace_lines.size() ? o1.trace_lines[k].c_str() : "-");
      if (k >= i) printf("B: %s\n", k < o2.trace_lines.size() ? o2.trace_lines[k].c_str() : "-");
    }
    return 0;
  }
  fprintf(stderr, "unknown mode\n");
  return 2;
}
