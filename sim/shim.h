// Query interface of the simulated pthread layer (for harness oracles). Objects are numbered in creation order.
#pragma once
#include "sim.h"
#include <vector>
#include <stdint.h>
namespace sim { namespace shim {
enum Kind { K_MUTEX, K_COND, K_RWLOCK, K_KEY, K_THREAD, K_KINDS };
int last_created(int kind);            // number of the last object of that kind created by the current task (-1 none)
int created_count(int kind);
int live_count(int kind);              // initialised and not destroyed
int mutex_owner(int num);              // task id or -1
int mutex_of_addr(const void *addr);   // number or -1
int cond_waiters(int num);
std::vector<int> cond_waiter_ids(int num);   // tasks parked on that native condition variable right now
uint64_t cond_wakes(int num);                // wake-ups delivered by signal / broadcast on it so far
uint64_t task_cond_wakes(int tid);           // times that task was taken out of a condition wait (signal, broadcast, spurious)
int cond_of_addr(const void *addr);
int rw_readers(int num); int rw_writer(int num);
int thread_task(int num);              // task id of simulated thread number
uint64_t dtor_calls();                 // TLS destructor invocations so far
int keys_live();
extern int fail_create_kth;            // F11: k-th pthread_create from now fails with EAGAIN (0 = none)
extern int fail_key_create_kth;
int detach_native(pthread_t th);       // pthread_detach on a native id (which may have been recycled)
extern int fail_mutex_trylock_kth;     // k-th pthread_mutex_trylock from now fails with EAGAIN (not EBUSY): the caller does not get the mutex
extern int fail_setname_kth;           // k-th pthread_setname_np from now fails with EPERM
extern int fail_mutex_lock_kth;        // k-th pthread_mutex_lock from now fails with EAGAIN (the caller does not get the mutex)
extern int mutex_lock_failures[];      // per task: how many of its pthread_mutex_lock calls were made to fail
} }
