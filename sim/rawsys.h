// Raw simulated system calls, for scripted peers inside harnesses (they bypass the library on purpose).
#pragma once
#include <sys/types.h>
#include <sys/socket.h>
#include <poll.h>
extern "C" {
int simk_socket(int domain, int type, int protocol);
int simk_bind(int fd, const struct sockaddr *sa, socklen_t len);
int simk_listen(int fd, int backlog);
int simk_accept(int fd, struct sockaddr *sa, socklen_t *len);
int simk_connect(int fd, const struct sockaddr *sa, socklen_t len);
ssize_t simk_send(int fd, const void *buf, size_t len, int flags);
ssize_t simk_sendto(int fd, const void *buf, size_t len, int flags, const struct sockaddr *to, socklen_t tolen);
ssize_t simk_recv(int fd, void *buf, size_t len, int flags);
ssize_t simk_recvfrom(int fd, void *buf, size_t len, int flags, struct sockaddr *from, socklen_t *fromlen);
int simk_shutdown(int fd, int how);
int simk_poll(struct pollfd *fds, nfds_t nfds, int timeout_ms);
int simk_getsockname(int fd, struct sockaddr *sa, socklen_t *len);
int simk_setsockopt(int fd, int level, int opt, const void *val, socklen_t len);
int simk_fcntl(int fd, int cmd, ...);
int simk_close(int fd);
}
