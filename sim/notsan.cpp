// Flavour A: no __tsan runtime; the happens-before engine still works at call level (mutex/semaphore shims
// and explicit SIM_READ/SIM_WRITE in harnesses).
#include "sim.h"
namespace sim {
const bool g_flavour_tsan = false;
bool g_tso_mode = false;
void tso_reset() {}
void tso_flush_all() {}
}
