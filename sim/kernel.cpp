// Simulated kernel (clock, descriptors, VM, IPC namespace, network). Grows with the harnesses.
#include "sim.h"
#include "core.h"
#include <stdarg.h>
#include <stdio.h>
#include <string.h>

using namespace sim;

namespace sim {
uint64_t g_msg_errors = 0, g_msg_warnings = 0;
}

extern "C" {
// P_ERROR / P_WARNING / P_DEBUG sink: counted, never printed
int simk_printf(const char *fmt, ...) {
  if (R) {
    va_list ap; va_start(ap, fmt);
    const char *msg = "";
    if (strstr(fmt, "%s")) msg = va_arg(ap, const char *);
    va_end(ap);
    if (strstr(fmt, "Error")) { g_msg_errors++; probe("msg.error"); }
    else if (strstr(fmt, "Warning")) { g_msg_warnings++; probe("msg.warning"); }
    if (R->trace) { char b[200]; snprintf(b, sizeof b, "lib-msg: %.150s", msg ? msg : ""); R->trace_lines.push_back(b); }
  }
  return 0;
}
int simk_puts(const char *s) { (void)s; return 0; }
}
