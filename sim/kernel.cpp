// Simulated kernel, part 1: message sink, clock, processes, descriptors, VM, POSIX semaphores and shm name space.
// Every simulated system call is atomic, is a scheduling point, may be preceded by a fault decision and
// leaves errno exactly as Linux would.
#include "sim.h"
#include "core.h"
#include "kernel.h"
#include "kernel_int.h"
#include <errno.h>
#include <fcntl.h>
#include <semaphore.h>
#include <stdarg.h>
#include <stdio.h>
#include <stdlib.h>
#include <string.h>
#include <sys/mman.h>
#include <sys/stat.h>
#include <sys/time.h>
#include <time.h>
#include <unistd.h>
#include <limits.h>
#include <algorithm>

#ifdef SIM_ASAN
extern "C" {
void __asan_poison_memory_region(void const volatile *addr, size_t size);
void __asan_unpoison_memory_region(void const volatile *addr, size_t size);
}
#endif

using namespace sim;

namespace sim {
namespace kern {

const char *call_names[SC_COUNT] = {"sem_open", "sem_close", "sem_unlink", "sem_wait", "sem_post", "shm_open", "shm_unlink", "ftruncate", "fstat",
                                    "mmap", "munmap", "close", "nanosleep", "socket", "bind", "listen", "accept", "connect", "send", "sendto", "recv",
                                    "recvfrom", "poll", "shutdown", "getsockopt", "setsockopt", "getsockname", "getpeername", "fcntl", "open", "fopen", "opendir", "dlopen", "pthread_create", "pthread_key_create", "getaddrinfo"};

K *k = nullptr;

void run_begin() {
  delete k;
  k = new K();
  hb::canon = canon_addr;
}

static void release_mapping(Mapping &m);

void run_end() {
  if (!k) return;
  for (auto &m : k->maps) release_mapping(m);
  k->maps.clear();
  for (auto *o : k->shm_objs) { if (o->memfd >= 0) close(o->memfd); delete o; }
  for (auto *o : k->sem_objs) delete o;
  for (auto &pr : k->procs) for (auto &e : pr.second.sems) free(e.second.handle);
  net_run_end();
  delete k;
  k = nullptr;
  hb::canon = nullptr;
}

Proc &proc_of(int p) { return k->procs[p]; }

// ---------------------------------------------------------------- fault plans
void plan_eintr(int call, int kth) { k->eintr_plan.insert({call, kth}); }
void plan_fail(int call, int kth, int err) { k->fail_plan[{call, kth}] = err; }
void unplan_fail(int call, int kth) { k->fail_plan.erase({call, kth}); }
void plan_kill(int proc, int kth, bool after) { k->kill_proc = proc; k->kill_k = kth; k->kill_after = after; }
int calls_made(int call) { return k->calls[call]; }
int ipc_calls_of(int proc) { return proc_of(proc).ipc_calls; }
bool proc_dead(int proc) { return proc_of(proc).dead; }
int eintr_fired() { return k->eintr_fired; }
int bad_closes() { return k->bad_closes; }
uint64_t closes_total() { return k->closes; }
int sigpipe_deliveries() { return k->sigpipes; }
bool sigpipe_ignored(int proc) { return proc_of(proc).sigpipe_ignored; }
uint64_t msg_errors() { return k->msg_errors; }
uint64_t msg_warnings() { return k->msg_warnings; }
int passthrough_open() { return k->files_open + k->dirs_open + k->libs_open + k->addrinfo_open + k->modules_left; }
std::string passthrough_desc() { char b[224]; snprintf(b, sizeof b, "%d FILE, %d DIR, %d dlopen handle(s), %d getaddrinfo result(s), %d module(s) still mapped after their last dlclose", k->files_open, k->dirs_open, k->libs_open, k->addrinfo_open, k->modules_left); return b; }
int syscalls_in_bracket() { Task *t = cur(); return t ? (int)(t->syscalls - t->api_sys_base) : 0; }

// called at entry of every simulated system call: scheduling point + bookkeeping. Returns invocation index.
int sc_enter(int call) {
  yield_point();
  Task *t = cur();
  int n = ++k->calls[call];
  if (t) { t->syscalls++; ev("sys", call, n); }
  return n;
}
bool want_eintr(int call, int n) {
  if (k->faults_off) return false;
  if (k->eintr_plan.count({call, n})) { k->eintr_fired++; fired(ST_EINTR); probe("eintr.planned"); return true; }
  if (cfg().p[ST_EINTR] > 0 && k->eintr_budget > 0 && flip(ST_EINTR, cfg().p[ST_EINTR])) { k->eintr_budget--; k->eintr_fired++; return true; }
  return false;
}
int want_fail(int call, int n) {
  if (k->faults_off) return 0;
  auto it = k->fail_plan.find({call, n});
  if (it != k->fail_plan.end()) { fired(ST_SYSCALL); return it->second; }
  return 0;
}

// ---------------------------------------------------------------- processes
static void kill_process(int p) {
  Proc &P = proc_of(p);
  if (P.dead) return;
  P.dead = true;
  ev("kill_process", p);
  probe("kill.process_killed");
  fired(ST_KILL);
  Task *me = cur();
  for (int i = 0; i < ntasks(); i++) { Task *t = task(i); if (t->proc == p && t != me) kill_task(t); }
  // only durable state survives: names, semaphore counters, segment contents
  for (auto &e : P.fds) fd_release(e.second);
  P.fds.clear();
  for (auto it = k->maps.begin(); it != k->maps.end();) { if (it->proc == p) { release_mapping(*it); it = k->maps.erase(it); } else ++it; }
  for (auto &e : P.sems) { e.first->open_refs--; free(e.second.handle); }
  P.sems.clear();
  alloc::reclaim_process(p);
  if (me && me->proc == p) die_current();
}

static void ipc_enter() {
  Task *t = cur(); if (!t) return;
  Proc &P = proc_of(t->proc);
  int n = ++P.ipc_calls;
  if (k->kill_proc == t->proc && !k->kill_after && k->kill_k == n) kill_process(t->proc);
  if (P.killable && !k->killed_one && cfg().p[ST_KILL] > 0 && flip(ST_KILL, cfg().p[ST_KILL])) { k->killed_one = true; kill_process(t->proc); }
}
static void ipc_exit() {
  Task *t = cur(); if (!t) return;
  Proc &P = proc_of(t->proc);
  if (k->kill_proc == t->proc && k->kill_after && k->kill_k == P.ipc_calls) kill_process(t->proc);
  if (P.killable && !k->killed_one && cfg().p[ST_KILL] > 0 && flip(ST_KILL, cfg().p[ST_KILL])) { k->killed_one = true; kill_process(t->proc); }
}
void set_killable(int proc, bool v) { proc_of(proc).killable = v; }
void faults_off(bool off) { if (off) k->faults_off++; else if (k->faults_off > 0) k->faults_off--; }

// ---------------------------------------------------------------- descriptors
int fd_alloc(Proc &P, FdEnt e) {
  int fd = 3;
  while (P.fds.count(fd)) fd++;
  Task *t = cur();
  e.owner_task = t ? t->id : -1;
  e.api = t ? t->api : nullptr;
  e.open_seq = now_seq();
  P.fds[fd] = e;
  k->opens++;
  return fd;
}
FdEnt *fd_get(int fd) {
  Task *t = cur(); if (!t) return nullptr;
  Proc &P = proc_of(t->proc);
  auto it = P.fds.find(fd);
  return it == P.fds.end() ? nullptr : &it->second;
}
void fd_release(FdEnt &e) {
  if (e.kind == FD_SHM && e.shm) e.shm->open_fds--;
  if (e.kind == FD_SOCK && e.sock) sock_release(e.sock);
  if (e.kind == FD_FILE && e.realfd >= 0) close(e.realfd);
}
int fd_count(int proc) { return (int)proc_of(proc).fds.size(); }
std::string fd_desc(int proc) {
  std::string s;
  for (auto &e : proc_of(proc).fds) { char b[96]; snprintf(b, sizeof b, "[fd %d kind %d by %s] ", e.first, e.second.kind, e.second.api ? e.second.api : "?"); s += b; }
  return s;
}
bool fd_cloexec(int proc, int fd) { auto &f = proc_of(proc).fds; auto it = f.find(fd); return it != f.end() && it->second.cloexec; }

// ---------------------------------------------------------------- VM
uintptr_t canon_addr(uintptr_t a) {
  if (!k) return a;
  for (auto &m : k->maps) if (m.shm && a >= m.addr && a < m.addr + m.len) return (1ULL << 62) | ((uintptr_t)m.shm->id << 40) | (a - m.addr);
  return a;
}
static void release_mapping(Mapping &m) {
#ifdef SIM_ASAN
  __asan_unpoison_memory_region((void *)m.reserve_base, m.reserve_len);
#endif
  munmap((void *)m.reserve_base, m.reserve_len);
  if (m.shm) m.shm->maps--;
}
size_t mapped_bytes(int proc) { size_t n = 0; for (auto &m : k->maps) if (m.proc == proc) n += m.len; return n; }
int mapping_count(int proc) { int n = 0; for (auto &m : k->maps) if (m.proc == proc) n++; return n; }
std::string mapping_desc(int proc) {
  std::string s;
  for (auto &m : k->maps) if (m.proc == proc) { char b[96]; snprintf(b, sizeof b, "[%zu bytes of %s by %s] ", m.len, m.shm ? "shm" : "anon", m.api ? m.api : "?"); s += b; }
  return s;
}

// ---------------------------------------------------------------- IPC queries
int last_sem_obj() { Task *t = cur(); return t ? k->last_sem[t->id] : -1; }
int last_shm_obj() { Task *t = cur(); return t ? k->last_shm[t->id] : -1; }
long last_fstat_size() { Task *t = cur(); return t ? k->last_fstat_size[t->id] : -1; }
size_t last_shm_size_at_open() { Task *t = cur(); return t ? k->last_shm_size_at_open[t->id] : 0; }
bool last_shm_created() { Task *t = cur(); return t && k->last_shm_created[t->id]; }
const char *last_sem_name() { Task *t = cur(); return t ? k->last_sem_name[t->id].c_str() : ""; }
const char *last_shm_name() { Task *t = cur(); return t ? k->last_shm_name[t->id].c_str() : ""; }
bool last_sem_created() { Task *t = cur(); return t && k->last_sem_created[t->id]; }
int sem_init_value(int obj) { return obj >= 0 && obj < (int)k->sem_objs.size() ? k->sem_objs[obj]->init_value : -1; }
int sem_value(int obj) { return obj >= 0 && obj < (int)k->sem_objs.size() ? k->sem_objs[obj]->value : -1; }
int sem_open_refs(int obj) { return obj >= 0 && obj < (int)k->sem_objs.size() ? k->sem_objs[obj]->open_refs : 0; }
bool sem_name_bound(const char *n) { return k->sem_names.count(n) != 0; }
int sem_obj_of_name(const char *n) { auto it = k->sem_names.find(n); return it == k->sem_names.end() ? -1 : it->second->id; }
bool shm_name_bound(const char *n) { return k->shm_names.count(n) != 0; }
int shm_obj_of_name(const char *n) { auto it = k->shm_names.find(n); return it == k->shm_names.end() ? -1 : it->second->id; }
size_t shm_size(int obj) { return obj >= 0 && obj < (int)k->shm_objs.size() ? k->shm_objs[obj]->size : 0; }
std::vector<std::string> names_bound() {
  std::vector<std::string> v;
  for (auto &e : k->sem_names) v.push_back("sem:" + e.first);
  for (auto &e : k->shm_names) v.push_back("shm:" + e.first);
  return v;
}
int sem_waiters(int obj) {
  int n = 0;
  for (int i = 0; i < ntasks(); i++) { Task *t = task(i); if (t->state == T_BLOCKED && t->bkind == B_SEM && t->bobj == obj) n++; }
  return n;
}

}  // namespace kern
}  // namespace sim

using namespace sim::kern;

extern "C" {

// ---------------------------------------------------------------- message sink (P_ERROR / P_WARNING / P_DEBUG)
int simk_printf(const char *fmt, ...) {
  if (R && k) {
    va_list ap; va_start(ap, fmt);
    const char *msg = "";
    if (strstr(fmt, "%s")) msg = va_arg(ap, const char *);
    va_end(ap);
    if (strstr(fmt, "Error")) { k->msg_errors++; probe("msg.error"); }
    else if (strstr(fmt, "Warning")) { k->msg_warnings++; probe("msg.warning"); }
    if (R->trace) { char b[200]; snprintf(b, sizeof b, "lib-msg: %.150s", msg ? msg : ""); R->trace_lines.push_back(b); }
  }
  return 0;
}
int simk_puts(const char *s) { (void)s; return 0; }

// ---------------------------------------------------------------- clock
int simk_clock_gettime(clockid_t, struct timespec *ts) {
  uint64_t n = now_ns();
  ts->tv_sec = (time_t)(n / 1000000000ULL); ts->tv_nsec = (long)(n % 1000000000ULL);
  return 0;
}
int simk_gettimeofday(struct timeval *tv, void *) {
  uint64_t n = now_ns();
  tv->tv_sec = (time_t)(n / 1000000000ULL); tv->tv_usec = (suseconds_t)((n % 1000000000ULL) / 1000);
  return 0;
}
// returns 0 when the deadline was reached, EINTR when a (simulated) signal interrupted the wait
static int sleep_interruptible(int call, int n, uint64_t deadline) {
  uint64_t now = now_ns();
  if (deadline > now && want_eintr(call, n)) {
    // the signal arrives at some instant strictly inside the wait
    uint64_t span = deadline - now;
    uint64_t at = now + span * (1 + choose(ST_EINTR, 7)) / 8;
    sleep_until(at);
    return EINTR;
  }
  uint64_t late = 0;
  if (cfg().p[ST_TIMER] > 0 && flip(ST_TIMER, cfg().p[ST_TIMER])) late = 1000ULL * (1 + choose(ST_TIMER, 5000));   // timers fire late, never early
  sleep_until(deadline + late);
  return 0;
}
int simk_clock_nanosleep(clockid_t, int flags, const struct timespec *req, struct timespec *rem) {
  int n = sc_enter(SC_NANOSLEEP);
  if (!cur()) return 0;
  if (req->tv_nsec < 0 || req->tv_nsec > 999999999L || req->tv_sec < 0) return EINVAL;     // returns the error, errno untouched
  uint64_t dur = (uint64_t)req->tv_sec * 1000000000ULL + (uint64_t)req->tv_nsec;
  uint64_t deadline = (flags & TIMER_ABSTIME) ? dur : now_ns() + dur;
  int r = sleep_interruptible(SC_NANOSLEEP, n, deadline);
  if (r == EINTR) {
    uint64_t left = deadline > now_ns() ? deadline - now_ns() : 0;
    if (rem && !(flags & TIMER_ABSTIME)) { rem->tv_sec = (time_t)(left / 1000000000ULL); rem->tv_nsec = (long)(left % 1000000000ULL); }
    probe("sleep.interrupted");
    return EINTR;
  }
  return 0;
}
int simk_nanosleep(const struct timespec *req, struct timespec *rem) {
  int r = simk_clock_nanosleep(CLOCK_MONOTONIC, 0, req, rem);
  if (r) { errno = r; return -1; }
  return 0;
}

// ---------------------------------------------------------------- POSIX named semaphores
sem_t *simk_sem_open(const char *name, int oflag, ...) {
  int n = sc_enter(SC_SEM_OPEN);
  Task *t = cur();
  if (!t) { errno = ENOSYS; return SEM_FAILED; }
  ipc_enter();
  mode_t mode = 0; unsigned value = 0;
  if (oflag & O_CREAT) { va_list ap; va_start(ap, oflag); mode = va_arg(ap, mode_t); value = va_arg(ap, unsigned); va_end(ap); }
  (void)mode;
  sem_t *ret = SEM_FAILED;
  int err = 0;
  if (want_eintr(SC_SEM_OPEN, n)) err = EINTR;
  else if ((err = want_fail(SC_SEM_OPEN, n))) {}
  else if (!name || name[0] != '/' || strlen(name) > 251) err = EINVAL;
  else {
    auto it = k->sem_names.find(name);
    SemObj *o = nullptr;
    bool created_now = false;
    if (it != k->sem_names.end()) {
      if ((oflag & O_CREAT) && (oflag & O_EXCL)) err = EEXIST;
      else o = it->second;
    } else {
      if (!(oflag & O_CREAT)) err = ENOENT;
      else if (value > (unsigned)SEM_VALUE_MAX) err = EINVAL;
      else {
        o = new SemObj();
        o->id = (int)k->sem_objs.size(); o->name = name; o->linked = true; o->value = (int)value; o->init_value = (int)value; o->vc.clear();
        created_now = true;
        k->sem_objs.push_back(o);
        k->sem_names[name] = o;
        ev("sem_create", o->id, (int64_t)value);
      }
    }
    if (o) {
      Proc &P = proc_of(t->proc);
      auto e = P.sems.find(o);
      if (e == P.sems.end()) {
        SemRef r; r.handle = (sem_t *)calloc(1, sizeof(sem_t)); r.refs = 1;
        P.sems[o] = r; o->open_refs++;
        ret = r.handle;
      } else { e->second.refs++; ret = e->second.handle; probe("sem.same_process_reopen"); }
      k->last_sem[t->id] = o->id;
      k->last_sem_created[t->id] = created_now;
      ev("sem_open", o->id);
    }
  }
  k->last_sem_name[t->id] = name ? name : "";
  if (err) { errno = err; ret = SEM_FAILED; ev("sem_open_fail", err); }
  ipc_exit();
  return ret;
}
static SemObj *sem_of_handle(sem_t *h, Proc **pp = nullptr) {
  Task *t = cur(); if (!t) return nullptr;
  Proc &P = proc_of(t->proc);
  if (pp) *pp = &P;
  for (auto &e : P.sems) if (e.second.handle == h) return e.first;
  auto a = k->anon_sems.find(h);            // unnamed semaphore (sem_init)
  if (a != k->anon_sems.end()) return a->second;
  return nullptr;
}
// unnamed semaphores: not used by the library today (a condition variable or queue built on them is a legitimate change)
int simk_sem_init(sem_t *h, int pshared, unsigned value) {
  yield_point();
  if (!cur()) return 0;
  (void)pshared;
  if (value > (unsigned)SEM_VALUE_MAX) { errno = EINVAL; return -1; }
  SemObj *o = new SemObj();
  o->id = (int)k->sem_objs.size(); o->name = "(unnamed)"; o->linked = false; o->value = (int)value; o->init_value = (int)value; o->vc.clear();
  k->sem_objs.push_back(o);
  k->anon_sems[h] = o; k->anon_live++;
  ev("sem_init", o->id, (int64_t)value);
  return 0;
}
int simk_sem_destroy(sem_t *h) {
  yield_point();
  if (!cur()) return 0;
  auto a = k->anon_sems.find(h);
  if (a == k->anon_sems.end()) { errno = EINVAL; k->bad_sem_ops++; return -1; }
  for (int i = 0; i < ntasks(); i++) { Task *w = task(i); if (w->state == T_BLOCKED && w->bkind == B_SEM && w->bobj == a->second->id) violate("sync_object_misuse", cur()->api ? cur()->api : "", "sem_destroy of an unnamed semaphore another task is blocked on"); }
  ev("sem_destroy", a->second->id);
  k->anon_sems.erase(a); k->anon_live--;
  return 0;
}
int simk_sem_close(sem_t *h) {
  sc_enter(SC_SEM_CLOSE);
  if (!cur()) return 0;
  ipc_enter();
  Proc *P; SemObj *o = sem_of_handle(h, &P);
  int rc = 0;
  if (!o) { errno = EINVAL; rc = -1; probe("sem.close_invalid"); k->bad_sem_ops++; }
  else {
    auto e = P->sems.find(o);
    if (--e->second.refs == 0) { free(e->second.handle); P->sems.erase(e); o->open_refs--; }
    ev("sem_close", o->id);
  }
  ipc_exit();
  return rc;
}
int simk_sem_unlink(const char *name) {
  sc_enter(SC_SEM_UNLINK);
  if (!cur()) return 0;
  ipc_enter();
  int rc = 0;
  auto it = k->sem_names.find(name ? name : "");
  if (it == k->sem_names.end()) { errno = ENOENT; rc = -1; }
  else { it->second->linked = false; ev("sem_unlink", it->second->id); k->sem_names.erase(it); }
  ipc_exit();
  return rc;
}
int simk_sem_wait(sem_t *h) {
  int n = sc_enter(SC_SEM_WAIT);
  Task *t = cur(); if (!t) return 0;
  ipc_enter();
  SemObj *o = sem_of_handle(h);
  if (!o) { k->bad_sem_ops++; errno = EINVAL; ipc_exit(); violate("sem_invalid_handle", t->api ? t->api : "", "sem_wait on a semaphore handle that is not open in this process"); }
  int rc = 0;
  bool first = true;
  for (;;) {
    if (o->value > 0) { o->value--; t->vc.join(o->vc); ev("sem_wait_ok", o->id, o->value); break; }
    // would block: a handled signal makes the call return EINTR
    if (want_eintr(SC_SEM_WAIT, first ? n : -1)) { errno = EINTR; rc = -1; probe("eintr.sem_wait"); break; }
    first = false;
    probe("sem.wait_blocked");
    block(B_SEM, o->id);
    if (t->cancelled) { errno = EINTR; rc = -1; break; }
  }
  ipc_exit();
  return rc;
}
// Variants the library does not use today; modelled so that a change which switches to them is judged, not refused.
int simk_sem_trywait(sem_t *h) {
  sc_enter(SC_SEM_WAIT);
  Task *t = cur(); if (!t) return 0;
  ipc_enter();
  SemObj *o = sem_of_handle(h);
  if (!o) { k->bad_sem_ops++; errno = EINVAL; ipc_exit(); violate("sem_invalid_handle", t->api ? t->api : "", "sem_trywait on a semaphore handle that is not open in this process"); }
  int rc = 0;
  if (o->value > 0) { o->value--; t->vc.join(o->vc); ev("sem_wait_ok", o->id, o->value); }
  else { errno = EAGAIN; rc = -1; }
  ipc_exit();
  return rc;
}
int simk_sem_timedwait(sem_t *h, const struct timespec *abs) {
  int n = sc_enter(SC_SEM_WAIT);
  Task *t = cur(); if (!t) return 0;
  ipc_enter();
  SemObj *o = sem_of_handle(h);
  if (!o) { k->bad_sem_ops++; errno = EINVAL; ipc_exit(); violate("sem_invalid_handle", t->api ? t->api : "", "sem_timedwait on a semaphore handle that is not open in this process"); }
  int rc = 0;
  bool first = true;
  for (;;) {
    if (o->value > 0) { o->value--; t->vc.join(o->vc); ev("sem_wait_ok", o->id, o->value); break; }
    if (!abs || abs->tv_nsec < 0 || abs->tv_nsec > 999999999L) { errno = EINVAL; rc = -1; break; }
    uint64_t deadline = (uint64_t)abs->tv_sec * 1000000000ULL + (uint64_t)abs->tv_nsec;
    if (now_ns() >= deadline) { errno = ETIMEDOUT; rc = -1; break; }
    if (want_eintr(SC_SEM_WAIT, first ? n : -1)) { errno = EINTR; rc = -1; probe("eintr.sem_wait"); break; }
    first = false;
    int id = t->id; int oid = o->id;
    add_timer(deadline, [id, oid]() { Task *x = task(id); if (x && x->state == T_BLOCKED && x->bkind == B_SEM && x->bobj == oid) wake(x); });
    block(B_SEM, o->id);
    if (t->cancelled) { errno = EINTR; rc = -1; break; }
  }
  ipc_exit();
  return rc;
}
int simk_sem_getvalue(sem_t *h, int *v) {
  sc_enter(SC_SEM_POST);
  Task *t = cur(); if (!t) return 0;
  SemObj *o = sem_of_handle(h);
  if (!o) { errno = EINVAL; return -1; }
  *v = o->value;
  return 0;
}
int simk_sem_post(sem_t *h) {
  sc_enter(SC_SEM_POST);
  Task *t = cur(); if (!t) return 0;
  ipc_enter();
  SemObj *o = sem_of_handle(h);
  if (!o) { k->bad_sem_ops++; errno = EINVAL; ipc_exit(); violate("sem_invalid_handle", t->api ? t->api : "", "sem_post on a semaphore handle that is not open in this process"); }
  int rc = 0;
  if (o->value == SEM_VALUE_MAX) { errno = EOVERFLOW; rc = -1; }
  else {
    o->value++;
    o->vc.join(t->vc); hb::tick(t);
    ev("sem_post", o->id, o->value);
    for (int i = 0; i < ntasks(); i++) { Task *w = task(i); if (w->state == T_BLOCKED && w->bkind == B_SEM && w->bobj == o->id) wake(w); }
  }
  ipc_exit();
  return rc;
}

// ---------------------------------------------------------------- POSIX shared memory objects + descriptors + mappings
int simk_shm_open(const char *name, int oflag, mode_t) {
  int n = sc_enter(SC_SHM_OPEN);
  Task *t = cur(); if (!t) { errno = ENOSYS; return -1; }
  ipc_enter();
  int err = 0, fd = -1;
  if (want_eintr(SC_SHM_OPEN, n)) err = EINTR;
  else if ((err = want_fail(SC_SHM_OPEN, n))) {}
  else if (!name || name[0] != '/') err = EINVAL;
  else {
    auto it = k->shm_names.find(name);
    ShmObj *o = nullptr;
    if (it != k->shm_names.end()) {
      if ((oflag & O_CREAT) && (oflag & O_EXCL)) err = EEXIST; else o = it->second;
    } else if (!(oflag & O_CREAT)) err = ENOENT;
    else {
      o = new ShmObj();
      o->id = (int)k->shm_objs.size(); o->name = name; o->linked = true; o->size = 0;
      o->memfd = memfd_create("simshm", 0);
      if (o->memfd < 0) infra_error("memfd_create failed: %s", strerror(errno));
      k->shm_objs.push_back(o);
      k->shm_names[name] = o;
      ev("shm_create", o->id);
    }
    if (o) {
      FdEnt e; e.kind = FD_SHM; e.shm = o; e.cloexec = true;   // shm_open sets FD_CLOEXEC
      e.rdonly = (oflag & O_ACCMODE) == O_RDONLY;
      o->open_fds++;
      fd = fd_alloc(proc_of(t->proc), e);
      k->last_shm[t->id] = o->id;
      k->last_shm_created[t->id] = it == k->shm_names.end();
      k->last_shm_size_at_open[t->id] = o->size;
      k->last_fstat_size[t->id] = -1;
      ev("shm_open", o->id, fd);
    }
  }
  k->last_shm_name[t->id] = name ? name : "";
  if (err) { errno = err; fd = -1; ev("shm_open_fail", err); }
  ipc_exit();
  return fd;
}
int simk_shm_unlink(const char *name) {
  sc_enter(SC_SHM_UNLINK);
  if (!cur()) return 0;
  ipc_enter();
  int rc = 0;
  auto it = k->shm_names.find(name ? name : "");
  if (it == k->shm_names.end()) { errno = ENOENT; rc = -1; }
  else { it->second->linked = false; ev("shm_unlink", it->second->id); k->shm_names.erase(it); }
  ipc_exit();
  return rc;
}
int simk_ftruncate(int fd, off_t len) {
  int n = sc_enter(SC_FTRUNCATE);
  if (!cur()) return 0;
  ipc_enter();
  int rc = 0, err;
  FdEnt *e = fd_get(fd);
  if (!e) { errno = EBADF; rc = -1; }
  else if ((err = want_fail(SC_FTRUNCATE, n))) { errno = err; rc = -1; }
  else if (e->kind != FD_SHM || e->rdonly) { errno = EINVAL; rc = -1; }
  else if (len < 0) { errno = EINVAL; rc = -1; }
  else {
    if (ftruncate(e->shm->memfd, len) != 0) infra_error("ftruncate(memfd) failed: %s", strerror(errno));
    e->shm->size = (size_t)len;
    ev("ftruncate", e->shm->id, (int64_t)len);
  }
  ipc_exit();
  return rc;
}
int simk_fstat(int fd, struct stat *st) {
  int n = sc_enter(SC_FSTAT);
  if (!cur()) return 0;
  ipc_enter();
  int rc = 0, err;
  FdEnt *e = fd_get(fd);
  if (!e) { errno = EBADF; rc = -1; }
  else if ((err = want_fail(SC_FSTAT, n))) { errno = err; rc = -1; }
  else {
    memset(st, 0, sizeof *st);
    st->st_mode = e->kind == FD_SOCK ? S_IFSOCK | 0777 : S_IFREG | 0660;
    st->st_size = e->kind == FD_SHM ? (off_t)e->shm->size : 0;
    if (cur()) k->last_fstat_size[cur()->id] = (long)st->st_size;
    st->st_nlink = 1;
  }
  ipc_exit();
  return rc;
}
void *simk_mmap(void *addr, size_t len, int prot, int flags, int fd, off_t off) {
  int n = sc_enter(SC_MMAP);
  Task *t = cur();
  if (!t) return mmap(addr, len, prot, flags, fd, off);
  ipc_enter();
  void *ret = MAP_FAILED;
  int err = 0;
  if (len == 0) err = EINVAL;
  else if ((err = want_fail(SC_MMAP, n))) {}
  else {
    size_t pg = 4096, span = (len + pg - 1) / pg * pg;
    ShmObj *o = nullptr;
    if (!(flags & MAP_ANONYMOUS)) {
      FdEnt *e = fd_get(fd);
      if (!e) err = EBADF;
      else if (e->kind != FD_SHM) err = ENODEV;
      else if (e->rdonly && (prot & PROT_WRITE) && (flags & MAP_SHARED)) err = EACCES;
      else o = e->shm;
    }
    if (!err) {
      // reserve [guard][span][guard] so that a touch outside the mapping really faults
      char *base = (char *)mmap(nullptr, span + 2 * pg, PROT_NONE, MAP_PRIVATE | MAP_ANONYMOUS | MAP_NORESERVE, -1, 0);
      if (base == MAP_FAILED) infra_error("host mmap failed");
      void *p;
      if (o) p = mmap(base + pg, span, prot, MAP_SHARED | MAP_FIXED, o->memfd, off);
      else p = mmap(base + pg, span, prot, MAP_PRIVATE | MAP_ANONYMOUS | MAP_FIXED, -1, 0);
      if (p == MAP_FAILED) infra_error("host mmap (fixed) failed: %s", strerror(errno));
      Mapping m; m.proc = t->proc; m.addr = (uintptr_t)p; m.len = len; m.shm = o; m.prot = prot; m.reserve_base = (uintptr_t)base; m.reserve_len = span + 2 * pg; m.api = t->api;
      if (o) o->maps++;
#ifdef SIM_ASAN
      // the bytes between the logical end and the end of the last page are outside the segment
      size_t logical = o ? std::min(len, o->size > (size_t)off ? o->size - (size_t)off : 0) : len;
      if (logical < span) __asan_poison_memory_region((char *)p + logical, span - logical);
#endif
      k->maps.push_back(m);
      ret = p;
      ev("mmap", o ? o->id : -1, (int64_t)len);
    }
  }
  if (err) { errno = err; ev("mmap_fail", err); }
  ipc_exit();
  return ret;
}
int simk_munmap(void *addr, size_t len) {
  sc_enter(SC_MUNMAP);
  Task *t = cur();
  if (!t) return munmap(addr, len);
  ipc_enter();
  int rc = 0;
  bool found = false;
  for (auto it = k->maps.begin(); it != k->maps.end(); ++it) {
    if (it->proc != t->proc || it->addr != (uintptr_t)addr) continue;
    found = true;
    size_t pg = 4096;
    size_t span_req = (len + pg - 1) / pg * pg, span_map = (it->len + pg - 1) / pg * pg;
    if (len == 0) { errno = EINVAL; rc = -1; break; }
    if (span_req >= span_map) {
      release_mapping(*it);
      k->maps.erase(it);
      ev("munmap", (int64_t)len, 1);
    } else {
      // partial unmap: the rest of the mapping stays (residue visible in the VM table)
      munmap(addr, span_req);
      it->addr += span_req; it->len -= span_req;
      probe("vm.partial_munmap");
      ev("munmap", (int64_t)len, 0);
    }
    break;
  }
  if (!found) {
    if ((uintptr_t)addr % 4096) { errno = EINVAL; rc = -1; }
    else { k->stray_munmaps++; probe("vm.munmap_unknown_range"); }    // Linux: unmapping nothing is not an error
  }
  ipc_exit();
  return rc;
}
int simk_close(int fd) {
  sc_enter(SC_CLOSE);
  Task *t = cur();
  if (!t) return close(fd);
  ipc_enter();
  int rc = 0;
  Proc &P = proc_of(t->proc);
  auto it = P.fds.find(fd);
  if (it == P.fds.end()) { errno = EBADF; rc = -1; k->bad_closes++; probe("fd.bad_close"); ev("close_bad", fd); }
  else { fd_release(it->second); P.fds.erase(it); k->closes++; ev("close", fd); }
  ipc_exit();
  return rc;
}


// ---------------------------------------------------------------- accounted pass-through: real calls, counted, failable (F11)
#include <dirent.h>
#include <dlfcn.h>
FILE *simk_fopen(const char *path, const char *mode) {
  int n = sc_enter(SC_FOPEN);
  int err = cur() ? want_fail(SC_FOPEN, n) : 0;
  if (err) { errno = err; return nullptr; }
  FILE *f = fopen(path, mode);
  if (f && k) k->files_open++;
  return f;
}
int simk_fclose(FILE *f) {
  if (k && f) k->files_open--;
  return fclose(f);
}
DIR *simk_opendir(const char *path) {
  int n = sc_enter(SC_OPENDIR);
  int err = cur() ? want_fail(SC_OPENDIR, n) : 0;
  if (err) { errno = err; return nullptr; }
  DIR *d = opendir(path);
  if (d && k) k->dirs_open++;
  return d;
}
int simk_closedir(DIR *d) {
  if (k && d) k->dirs_open--;
  return closedir(d);
}
int simk_open(const char *path, int flags, ...) {
  int n = sc_enter(SC_OPEN);
  mode_t mode = 0;
  if (flags & O_CREAT) { va_list ap; va_start(ap, flags); mode = va_arg(ap, mode_t); va_end(ap); }
  Task *t = cur();
  if (!t) return open(path, flags, mode);
  int err = want_fail(SC_OPEN, n);
  if (err) { errno = err; return -1; }
  int rfd = open(path, flags, mode);
  if (rfd < 0) return -1;
  FdEnt e; e.kind = FD_FILE; e.realfd = rfd; e.cloexec = flags & O_CLOEXEC;
  return fd_alloc(proc_of(t->proc), e);
}
// A module that was not resident before the library loaded it must be gone again when the last handle the library got for it is
// closed (RTLD_NODELETE and friends keep its mappings for the life of the process).
static bool module_resident(const char *path) { void *p = dlopen(path, RTLD_LAZY | RTLD_NOLOAD); if (p) dlclose(p); return p != nullptr; }
void *simk_dlopen(const char *path, int flags) {
  int n = sc_enter(SC_DLOPEN);
  int err = cur() ? want_fail(SC_DLOPEN, n) : 0;
  if (err) return nullptr;
  bool was_resident = path && k && !k->lib_refs.count(path) ? module_resident(path) : true;
  void *h = dlopen(path, flags);
  if (h && k) {
    k->libs_open++;
    if (path) { k->lib_path[h] = path; if (!k->lib_refs.count(path)) k->lib_foreign[path] = was_resident; k->lib_refs[path]++; }
  }
  return h;
}
// resolver results live on the C library's heap, outside the library's allocator table: counted like streams
#include <netdb.h>
int simk_getaddrinfo(const char *node, const char *service, const struct addrinfo *hints, struct addrinfo **res) {
  int n = sc_enter(SC_GETADDRINFO);
  if (cur() && want_fail(SC_GETADDRINFO, n)) return EAI_MEMORY;
  int r = getaddrinfo(node, service, hints, res);
  if (r == 0 && k) k->addrinfo_open++;
  return r;
}
void simk_freeaddrinfo(struct addrinfo *res) {
  if (k && res) k->addrinfo_open--;
  freeaddrinfo(res);
}
int simk_dlclose(void *h) {
  if (k && h) k->libs_open--;
  std::string path;
  if (k && h) { auto it = k->lib_path.find(h); if (it != k->lib_path.end()) { path = it->second; k->lib_path.erase(it); } }
  int rc = dlclose(h);
  if (k && !path.empty() && --k->lib_refs[path] == 0) {
    if (!k->lib_foreign[path] && module_resident(path.c_str())) { k->modules_left++; probe("loader.module_still_resident_after_close"); }
    k->lib_refs.erase(path);
  }
  return rc;
}

}  // extern "C"
