// Simulated kernel: internal state shared by kernel.cpp and knet.cpp.
#pragma once
#include "sim.h"
#include "kernel.h"
#include <semaphore.h>
#include <map>
#include <set>
#include <string>
#include <vector>

namespace sim { namespace kern {

struct SemObj { int id; std::string name; bool linked; int value; int open_refs = 0; VC vc; int init_value = 0; };
struct ShmObj { int id; std::string name; bool linked; int memfd = -1; size_t size = 0; int open_fds = 0; int maps = 0; };
struct SockObj;
enum FdKind { FD_NONE, FD_SHM, FD_SOCK, FD_FILE };
struct FdEnt {
  int kind = FD_NONE; ShmObj *shm = nullptr; SockObj *sock = nullptr; int realfd = -1;
  bool cloexec = false, nonblock = false, rdonly = false;
  int owner_task = -1; const char *api = nullptr; uint64_t open_seq = 0;
};
struct SemRef { sem_t *handle; int refs; };
struct Proc {
  bool dead = false, killable = false, sigpipe_ignored = false;
  int ipc_calls = 0;
  std::map<int, FdEnt> fds;
  std::map<SemObj *, SemRef> sems;
};
struct Mapping { int proc; uintptr_t addr; size_t len; ShmObj *shm; int prot; uintptr_t reserve_base; size_t reserve_len; const char *api; };

struct Net;
struct K {
  std::map<int, Proc> procs;
  std::vector<SemObj *> sem_objs; std::map<std::string, SemObj *> sem_names; std::map<sem_t *, SemObj *> anon_sems; int anon_live = 0;
  std::vector<ShmObj *> shm_objs; std::map<std::string, ShmObj *> shm_names;
  std::vector<Mapping> maps;
  int calls[SC_COUNT] = {0};
  std::set<std::pair<int, int>> eintr_plan;
  std::map<std::pair<int, int>, int> fail_plan;
  int kill_proc = -1, kill_k = 0; bool kill_after = false, killed_one = false;
  int eintr_fired = 0, eintr_budget = 8;
  int bad_closes = 0, bad_sem_ops = 0, stray_munmaps = 0, sigpipes = 0;
  uint64_t closes = 0, opens = 0, msg_errors = 0, msg_warnings = 0;
  int last_sem[MAXT], last_shm[MAXT]; bool last_shm_created[MAXT] = {false}; bool last_sem_created[MAXT] = {false}; size_t last_shm_size_at_open[MAXT] = {0}; long last_fstat_size[MAXT] = {0};
  std::string last_sem_name[MAXT], last_shm_name[MAXT];
  Net *net = nullptr;
  int files_open = 0, dirs_open = 0, libs_open = 0, addrinfo_open = 0, modules_left = 0;
  std::map<void *, std::string> lib_path; std::map<std::string, int> lib_refs; std::map<std::string, bool> lib_foreign;
  int faults_off = 0;          // >0 while a scripted raw peer talks to the kernel: no fault injection into its calls
  int default_sndbuf = 65536, default_rcvbuf = 65536; bool net_faults = false;
  K() { for (int i = 0; i < MAXT; i++) { last_sem[i] = -1; last_shm[i] = -1; } }
};
extern K *k;

Proc &proc_of(int p);
int sc_enter(int call);
bool want_eintr(int call, int n);
int want_fail(int call, int n);
int fd_alloc(Proc &P, FdEnt e);
FdEnt *fd_get(int fd);
void fd_release(FdEnt &e);
uintptr_t canon_addr(uintptr_t a);
// knet.cpp
void net_run_end();
void sock_release(SockObj *s);

} }
