// Simulated network objects (shared with harness oracles through sock_by_id / sock_of_fd).
#pragma once
#include "sim.h"
#include <deque>
#include <string>
#include <vector>
#include <stdint.h>

namespace sim { namespace kern {

struct NAddr { int family = 0; uint8_t ip[16] = {0}; uint16_t port = 0; uint32_t flow = 0, scope = 0; };
struct Dgram { std::string data; NAddr from; uint64_t serial = 0; };
enum SockState { SS_NEW, SS_LISTEN, SS_CONNECTING, SS_CONNECTED, SS_CLOSED };

struct SockObj {
  int id = 0, domain = 0, type = 0;
  int fdrefs = 0;
  bool nonblock = false;
  bool bound = false, has_peer = false, accepted_child = false;
  NAddr local, peer_addr;
  bool so_reuseaddr = false, so_reuseport = false, so_keepalive = false;
  int sndbuf = 65536, rcvbuf = 65536, so_error = 0;
  SockState state = SS_NEW;
  int backlog = 0;
  std::deque<SockObj *> accept_q;
  SockObj *peer = nullptr, *connecting_to = nullptr;
  uint64_t connect_started = 0, last_delivery_at = 0;
  bool connect_done = false, connect_ok_unreported = false, was_connected = false;
  std::deque<uint8_t> rx, wire;
  bool rx_fin = false, rx_rst = false, shut_rd = false, shut_wr = false, peer_gone = false, fin_pending = false;
  std::deque<Dgram> dq;
};

struct NetStats {
  uint64_t delayed = 0, resets = 0, refused = 0, backlog_stalls = 0, spurious_eagain = 0, short_sends = 0;
  uint64_t dgrams_sent = 0, dgrams_lost = 0, dgrams_dup = 0, dgrams_delayed = 0, dgrams_reordered = 0, dgrams_dropped_full = 0;
};
NetStats &net_stats();
SockObj *sock_by_id(int id);
SockObj *sock_of_fd(int proc, int fd);
int sock_count_open();
void set_net_defaults(int sndbuf, int rcvbuf, bool net_faults);   // per-run socket buffer sizes; net_faults: datagram loss/dup/reorder allowed

} }
