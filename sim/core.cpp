// Simulator core: decision streams, fibers, scheduler, clock, event log, violations, run loop.
#include "sim.h"
#include "core.h"
#include "fiber.h"
#include <errno.h>
#include <stdio.h>
#include <stdlib.h>
#include <string.h>
#include <algorithm>
#include <queue>

namespace sim {

const char *stream_names[ST_MAX] = {"gen", "sched", "wake", "spurious", "rwpref", "storebuf", "kill", "eintr",
                                    "short", "net", "alloc", "syscall", "timer", "signal"};

uint64_t Rng::next() {
  uint64_t z = (s += 0x9e3779b97f4a7c15ULL);
  z = (z ^ (z >> 30)) * 0xbf58476d1ce4e5b9ULL;
  z = (z ^ (z >> 27)) * 0x94d049bb133111ebULL;
  return z ^ (z >> 31);
}
uint64_t splitmix(uint64_t a, uint64_t b) {
  Rng r(a ^ (b * 0xd6e8feb86659fd93ULL + 0x2545F4914F6CDD1DULL));
  r.next();
  return r.next();
}

void VC::clear() { memset(c, 0, sizeof c); }
void VC::join(const VC &o) { for (int i = 0; i < MAXT; i++) if (o.c[i] > c[i]) c[i] = o.c[i]; }
bool VC::leq(const VC &o) const { for (int i = 0; i < MAXT; i++) if (c[i] > o.c[i]) return false; return true; }

// ------------------------------------------------------------------ run state
Run *R = nullptr;
static std::vector<HarnessDef> &registry() { static std::vector<HarnessDef> v; return v; }
void register_harness(const HarnessDef &h) { registry().push_back(h); }
const HarnessDef *find_harness(const char *name) {
  for (auto &h : registry()) if (!strcmp(h.name, name)) return &h;
  return nullptr;
}
std::vector<const HarnessDef *> all_harnesses() {
  std::vector<const HarnessDef *> v;
  for (auto &h : registry()) v.push_back(&h);
  return v;
}

Task *cur() { return R ? R->current : nullptr; }
Task *task(int id) { return (R && id >= 0 && id < (int)R->tasks.size()) ? R->tasks[id] : nullptr; }
int ntasks() { return R ? (int)R->tasks.size() : 0; }
Config &cfg() { return R->cfg; }
Hooks &hooks() { return R->hooks; }
bool replaying() { return R && R->replay != nullptr; }
uint64_t now_seq() { return R ? R->seq : 0; }
uint64_t steps() { return R ? R->steps : 0; }
uint64_t now_ns() { return R ? R->now_ns : 0; }
bool run_aborted() { return R && R->aborted; }

// ------------------------------------------------------------------ decisions
static inline void record(int stream, uint32_t v) {
  R->eff.v[stream].push_back(v);
  if (R->shared) {
    Shared *sh = R->shared;
    if (sh->sn[stream] < (1u << 16)) sh->sdec[stream][sh->sn[stream]++] = v; else sh->overflow = 1;
  }
}

uint32_t choose(int stream, uint32_t n) {
  if (!R) return 0;
  if (n <= 1) return 0;
  uint32_t v;
  if (R->replay) {
    auto &s = R->replay->v[stream];
    size_t &p = R->rpos[stream];
    v = p < s.size() ? s[p++] % n : 0;
  } else {
    v = R->rng.below(n);
  }
  record(stream, v);
  return v;
}

bool flip(int stream, double p) {
  if (!R) return false;
  if (p <= 0) return false;
  bool v;
  if (R->replay) {
    auto &s = R->replay->v[stream];
    size_t &pos = R->rpos[stream];
    v = pos < s.size() ? (s[pos++] != 0) : false;
  } else {
    v = R->rng.unit() < p;
  }
  record(stream, v ? 1 : 0);
  if (v && stream != ST_GEN) R->fired[stream]++;
  return v;
}

void fired(int stream) { if (R) R->fired[stream]++; }

// ------------------------------------------------------------------ log / probes
static inline uint64_t mix(uint64_t h, uint64_t v) {
  h ^= v + 0x9e3779b97f4a7c15ULL + (h << 6) + (h >> 2);
  h *= 0xff51afd7ed558ccdULL;
  return h ^ (h >> 33);
}
static uint64_t strhash(const char *s) {
  uint64_t h = 1469598103934665603ULL;
  for (; *s; s++) h = (h ^ (unsigned char)*s) * 1099511628211ULL;
  return h;
}

void ev(const char *what, int64_t a, int64_t b, int64_t c) {
  if (!R) return;
  R->seq++;
  int tid = R->current ? R->current->id : -1;
  uint64_t h = R->log_hash;
  h = mix(h, strhash(what));
  h = mix(h, (uint64_t)a); h = mix(h, (uint64_t)b); h = mix(h, (uint64_t)c);
  h = mix(h, (uint64_t)tid);
  R->log_hash = h;
  if (R->trace) {
    char buf[256];
    if (R->trace_note) { snprintf(buf, sizeof buf, "%6llu t%d %s %s %lld %lld", (unsigned long long)R->seq, tid, what, R->trace_note, (long long)b, (long long)c); R->trace_note = nullptr; }
    else snprintf(buf, sizeof buf, "%6llu t%d %s %lld %lld %lld", (unsigned long long)R->seq, tid, what, (long long)a, (long long)b, (long long)c);
    R->trace_lines.push_back(buf);
  }
}

void order_ev(int obj, int op, int tid) {
  if (!R) return;
  R->order_hash = mix(R->order_hash, ((uint64_t)obj << 40) ^ ((uint64_t)op << 20) ^ (uint64_t)tid);
}

void probe(const char *name) {
  if (!R) return;
  R->probes[name]++;
}

void describe(const char *fmt, ...) {
  if (!R) return;
  if (R->desc.size() > 6000) return;
  char buf[1024];
  va_list ap; va_start(ap, fmt); vsnprintf(buf, sizeof buf, fmt, ap); va_end(ap);
  R->desc += buf;
  if (R->shared) snprintf(R->shared->desc, sizeof R->shared->desc, "%s", R->desc.c_str());
}

// ------------------------------------------------------------------ violations
static void switch_to_main_abandon();

static void set_violation(const char *cls, const char *key, const char *msg) {
  if (R->res.status == RS_VIOLATION) return;   // first one wins
  R->res.status = RS_VIOLATION;
  R->res.cls = cls;
  R->res.key = key ? key : "";
  R->res.msg = msg;
  if (R->attr_api) R->res.api = R->attr_api;
  else if (R->current && R->current->api) R->res.api = R->current->api;
  ev("VIOLATION", (int64_t)strhash(cls));
}

void violate_noabort(const char *cls, const char *key, const char *fmt, ...) {
  char buf[1024];
  va_list ap; va_start(ap, fmt); vsnprintf(buf, sizeof buf, fmt, ap); va_end(ap);
  if (!R) { fprintf(stderr, "violation outside run: %s %s\n", cls, buf); exit(2); }
  set_violation(cls, key, buf);
}

void violate(const char *cls, const char *key, const char *fmt, ...) {
  char buf[1024];
  va_list ap; va_start(ap, fmt); vsnprintf(buf, sizeof buf, fmt, ap); va_end(ap);
  if (!R) { fprintf(stderr, "violation outside run: %s %s\n", cls, buf); exit(2); }
  set_violation(cls, key, buf);
  R->aborted = true;
  if (!R->current) { fprintf(stderr, "sim: violate() from main context: %s %s\n", cls, buf); exit(2); }
  switch_to_main_abandon();
  abort();
}

void infra_error(const char *fmt, ...) {
  char buf[1024];
  va_list ap; va_start(ap, fmt); vsnprintf(buf, sizeof buf, fmt, ap); va_end(ap);
  fprintf(stderr, "INFRA-ERROR: %s\n", buf);
  fflush(stderr);
  if (R && R->shared) { R->shared->infra = 1; snprintf(R->shared->msg, sizeof R->shared->msg, "%.500s", buf); }
  _Exit(2);
}

void inconclusive(const char *why) {
  if (!R) exit(2);
  if (R->res.status != RS_VIOLATION) { R->res.status = RS_INCONCLUSIVE; R->res.msg = why; }
  R->aborted = true;
  if (!R->current) { fprintf(stderr, "sim: inconclusive() from main context\n"); exit(2); }
  switch_to_main_abandon();
  abort();
}

// ------------------------------------------------------------------ API bracket
ApiScope::ApiScope(const char *api, int obj, bool nonblocking) {
  t = cur();
  if (!t) { prev = nullptr; prevnb = false; prevobj = -1; return; }
  prev = t->api; prevnb = t->api_nonblocking; prevobj = t->api_obj;
  t->api = api; t->api_nonblocking = nonblocking; t->api_obj = obj;
  t->api_depth++;
  if (t->api_depth == 1) t->api_sys_base = t->syscalls;
  t->spin_addr = nullptr; t->spin_count = 0; t->spin_total = 0;
  if (R->shared) snprintf(R->shared->cur_api, sizeof R->shared->cur_api, "%s", api);
  R->trace_note = api;
  ev("invoke", (int64_t)strhash(api), obj);
}
static const char *api_label(Task *t);
ApiScope::~ApiScope() {
  if (!t || !R || R->aborted) return;
  R->trace_note = t->api;
  ev("return", (int64_t)strhash(t->api ? t->api : ""), t->api_obj);
  t->api_depth--;
  t->api = prev; t->api_nonblocking = prevnb; t->api_obj = prevobj;
  t->spin_addr = nullptr; t->spin_count = 0; t->spin_total = 0;
  if (R->shared) snprintf(R->shared->cur_api, sizeof R->shared->cur_api, "%s", api_label(t));
}

// what a crash is attributed to: the bracketed call, or - in a thread the library created - the library's own start-up / exit code
// around the user routine (thread proxy, TLS destructors), which runs outside every bracket
static const char *api_label(Task *t) { return t->api ? t->api : (t->lib_thread ? "library thread start-up/exit" : ""); }

// ------------------------------------------------------------------ fibers / scheduler
static void fiber_entry();

static void do_switch(Task *from, Task *to) {
  // from == nullptr: main context; to == nullptr: main context
  if (from) from->saved_errno = errno;
  R->current = to;
  void **save_sp = from ? &from->sp : &R->main_sp;
  void **fake = from ? ((from->state == T_FINISHED || from->state == T_DEAD || R->aborted) ? nullptr : &from->asan_fake) : &R->main_fake;
  void *to_sp = to ? to->sp : R->main_sp;
  fiber_switch(save_sp, fake, to_sp, to ? to->stack : nullptr, to ? to->stack_size : 0);
  // back here: we are 'from' again
  fiber_landed(from ? from->asan_fake : R->main_fake);
  if (from) errno = from->saved_errno;
  if (from && R->shared) snprintf(R->shared->cur_api, sizeof R->shared->cur_api, "%s", api_label(from));
}

static void switch_to_main_abandon() {
  Task *me = R->current;
  do_switch(me, nullptr);
}

static void fiber_entry() {
  fiber_landed(nullptr);
  Task *t = R->current;
  errno = 0;
  if (R->shared) snprintf(R->shared->cur_api, sizeof R->shared->cur_api, "%s", api_label(t));
  t->started = true;
  t->entry();
  exit_task();
}

Task *spawn(int proc, std::function<void()> fn, bool hb_from_cur) {
  if ((int)R->tasks.size() >= MAXT) infra_error("too many tasks");
  Task *t = new Task();
  t->id = (int)R->tasks.size();
  t->proc = proc;
  t->entry = std::move(fn);
  t->stack = stack_acquire(&t->stack_size);
  t->sp = fiber_prepare(t->stack, t->stack_size, fiber_entry);
  t->vc.clear();
  Task *c = R->current;
  if (c && hb_from_cur) { t->vc.join(c->vc); c->vc.c[c->id]++; }
  t->vc.c[t->id] = 1;
  // PCT priority: random distinct-ish
  t->prio = R->replay ? 0 : (int)(1000 + R->rng.below(1000000));
  R->tasks.push_back(t);
  ev("spawn", t->id, proc);
  return t;
}

static bool is_enabled(Task *t) { return t->state == T_RUNNABLE && t->bkind != B_SPIN; }

void wake(Task *t) {
  if (t->state == T_BLOCKED) {
    t->state = T_RUNNABLE;
    t->bkind = B_NONE;
    t->bobj = -1;
    t->has_timer = false;
    t->parked_in_try = false;
  }
}

static std::priority_queue<TimerEv> &timers() { return R->timers; }

void add_timer(uint64_t at, std::function<void()> fn) {
  timers().push(TimerEv{at, ++R->timer_seq, std::move(fn)});
}

void sleep_until(uint64_t at) {
  Task *t = cur();
  if (!t) return;
  int id = t->id;
  uint64_t gen = ++R->sleep_gen[id];
  add_timer(at, [id, gen]() {
    Task *x = task(id);
    if (x && x->state == T_BLOCKED && x->bkind == B_TIMER && R->sleep_gen[id] == gen) wake(x);
  });
  t->has_timer = true;
  block(B_TIMER, -1);
}

static void check_try_parked() {
  // A task parked inside a non-blocking ("try") API call while nobody else is inside a library call and
  // no timer can release it: its completion needs a NEW api call by someone -> it blocks (3.2).
  for (Task *t : R->tasks) {
    if (!t->parked_in_try) continue;
    if (!(t->state == T_BLOCKED || (t->state == T_RUNNABLE && t->bkind == B_SPIN))) continue;
    bool someone_in_flight = false;
    for (Task *o : R->tasks) {
      if (o == t || o->state == T_FINISHED || o->state == T_DEAD) continue;
      if (o->state == T_RUNNABLE && o->api_depth > 0) { someone_in_flight = true; break; }
      if (o->state == T_BLOCKED && o->has_timer) { someone_in_flight = true; break; }
    }
    if (!someone_in_flight && timers().empty()) {
      R->attr_api = t->api;
      char key[128]; snprintf(key, sizeof key, "%s", t->api ? t->api : "?");
      set_violation("try_blocks", key, "non-blocking call parked and can only be released by a new API call");
      R->aborted = true;
    }
  }
}

// pick next task; returns nullptr when the run is over (all finished) or aborted
static Task *pick_next() {
  for (;;) {
    if (R->aborted) return nullptr;
    std::vector<Task *> en;
    for (Task *t : R->tasks) if (is_enabled(t)) en.push_back(t); else t->passed_over = 0;
    if (en.empty()) {
      // release spin-blocked tasks
      bool any = false;
      for (Task *t : R->tasks) if (t->state == T_RUNNABLE && t->bkind == B_SPIN) {
        t->bkind = B_NONE; t->spin_count = 0; any = true;
      }
      if (any) continue;
      if (!timers().empty()) {
        TimerEv e = timers().top(); timers().pop();
        if (e.at > R->now_ns) R->now_ns = e.at;
        e.fn();
        continue;
      }
      bool unfinished = false;
      for (Task *t : R->tasks) if (t->state == T_BLOCKED) unfinished = true;
      if (!unfinished) return nullptr;
      if (R->hooks.on_quiescence && R->quiesce_calls < 64) {
        R->quiesce_calls++;
        if (R->hooks.on_quiescence()) continue;
      }
      // deadlock
      std::string g;
      static const char *bk[] = {"none", "mutex", "cond", "rwlock", "join", "sem", "sock", "timer", "spin", "waitall", "barrier", "hold"};
      for (Task *t : R->tasks) if (t->state == T_BLOCKED) {
        char b[96]; snprintf(b, sizeof b, "t%d:%s#%d(%s) ", t->id, bk[t->bkind], t->bobj, t->api ? t->api : "-");
        g += b;
      }
      if (R->hooks.completion_required) {
        // key: kinds of objects blocked on by non-root tasks inside API calls
        std::string key;
        for (Task *t : R->tasks) if (t->state == T_BLOCKED && t->bkind != B_WAITALL && t->api) { key = t->api; break; }
        set_violation("deadlock", key.c_str(), ("no task can run: " + g).c_str());
      } else {
        if (R->res.status != RS_VIOLATION) { R->res.status = RS_INCONCLUSIVE; R->res.msg = "quiescent with blocked tasks: " + g; }
      }
      R->aborted = true;
      return nullptr;
    }
    Task *c = R->current;
    bool cur_en = c && is_enabled(c);
    // candidates: [cur] + others by id, or all by id
    std::vector<Task *> cand;
    if (cur_en) cand.push_back(c);
    for (Task *t : en) if (t != c || !cur_en) cand.push_back(t);
    uint32_t idx = 0;
    if (cand.size() > 1) {
      if (R->replay) {
        idx = choose(ST_SCHED, (uint32_t)cand.size());
      } else {
        const Config &cf = R->cfg;
        // Fairness every real scheduler gives: (a) sched_yield hands the processor to somebody else when anybody can run;
        // (b) nobody who can run waits for ever - a task passed over for STARVE_STEPS scheduling points runs next.
        // Without this a polling loop (lock, look, unlock, yield) starves the very task it is waiting for under PCT / run-to-block.
        static const uint32_t STARVE_STEPS = 4000;
        Task *forced = nullptr;
        for (Task *t : cand) if (t != c && t->passed_over > STARVE_STEPS && (!forced || t->passed_over > forced->passed_over)) forced = t;
        if (!forced && cur_en && c->yielded) {
          if (cf.policy == POL_PCT) c->prio = --R->pct_low;
          else forced = cand[1 + R->rng.below((uint32_t)cand.size() - 1)];
        }
        if (c) c->yielded = false;
        if (forced) { for (size_t i = 0; i < cand.size(); i++) if (cand[i] == forced) idx = (uint32_t)i; }
        else
        switch (cf.policy) {
        case POL_RANDOM:
          if (cur_en) { if (R->rng.unit() < cf.switch_p) idx = 1 + R->rng.below((uint32_t)cand.size() - 1); }
          else idx = R->rng.below((uint32_t)cand.size());
          break;
        case POL_PCT: {
          for (int k = 0; k < cf.pct_d; k++)
            if (R->steps == R->pct_points[k] && cur_en) c->prio = --R->pct_low;
          int best = 0;
          for (size_t i = 1; i < cand.size(); i++) if (cand[i]->prio > cand[best]->prio) best = (int)i;
          idx = (uint32_t)best;
          break;
        }
        case POL_RR:
          if (cur_en) {
            if (++R->rr_count >= cf.rr_quantum) { R->rr_count = 0; idx = 1; /* next by id after cur, cyclic */
              size_t pos = 0; for (size_t i = 1; i < cand.size(); i++) if (cand[i]->id > c->id) { pos = i; break; }
              idx = pos ? (uint32_t)pos : 1; }
          } else {
            size_t pos = 0; if (c) for (size_t i = 0; i < cand.size(); i++) if (cand[i]->id > c->id) { pos = i; break; }
            idx = (uint32_t)pos;
          }
          break;
        }
        record(ST_SCHED, idx);
      }
    }
    Task *n = cand[idx];
    if (n != c) R->res.switches++;
    if (!R->replay) { for (Task *t : cand) t->passed_over++; n->passed_over = 0; }
    return n;
  }
}

static void run_scheduler_from(Task *me) {
  // me: current task (may be blocked/finished) or nullptr (main)
  Task *n = pick_next();
  if (n == me && me) return;
  if (!n) {
    // run over or aborted: go to main
    if (me) { do_switch(me, nullptr); if (me->state == T_FINISHED || me->state == T_DEAD) abort(); return; }
    return;
  }
  do_switch(me, n);
}

void yield_point(int kind) {
  (void)kind;
  if (!R || !R->current || R->in_sim) return;
  Task *me = R->current;
  R->steps++;
  if (R->steps > R->cfg.step_cap) {
    if (R->hooks.completion_required) {
      char key[96]; snprintf(key, sizeof key, "%s", me->api ? me->api : "-");
      set_violation("no_progress", key, "step cap reached");
    } else if (R->res.status != RS_VIOLATION) { R->res.status = RS_INCONCLUSIVE; R->res.msg = "step cap"; }
    R->aborted = true;
    switch_to_main_abandon();
    abort();
  }
  if (R->any_try_parked) { check_try_parked(); if (R->aborted) { switch_to_main_abandon(); abort(); } }
  run_scheduler_from(me);
  if (R->aborted) { switch_to_main_abandon(); abort(); }
}

void block(BlockKind k, int obj) {
  Task *me = R->current;
  if (!me) infra_error("block() outside task");
  me->state = T_BLOCKED;
  me->bkind = k;
  me->bobj = obj;
  if (me->api_depth > 0 && me->api_nonblocking && k != B_HOLD) {
    me->parked_in_try = true; R->any_try_parked = true;
    check_try_parked();
    if (R->aborted) { switch_to_main_abandon(); abort(); }
  }
  ev("block", k, obj);
  while (me->state == T_BLOCKED) {
    run_scheduler_from(me);
    if (R->aborted) { switch_to_main_abandon(); abort(); }
  }
}

void spin_block(const void *addr) {
  Task *me = R->current;
  if (!me) return;
  me->bkind = B_SPIN;           // stays RUNNABLE but not enabled
  me->spin_addr = addr;
  R->res.spin_blocks++;
  // a non-blocking ("try") call that polls one location until somebody else writes it is waiting, just like a parked one
  bool in_try = me->api_depth > 0 && me->api_nonblocking;
  if (in_try) {
    me->parked_in_try = true; R->any_try_parked = true;
    check_try_parked();
    if (R->aborted) { switch_to_main_abandon(); abort(); }
  }
  run_scheduler_from(me);
  if (in_try) me->parked_in_try = false;
  if (R->aborted) { switch_to_main_abandon(); abort(); }
}

void spin_wake(const void *addr) {
  for (Task *t : R->tasks)
    if (t->spin_addr == addr) { t->spin_count = 0; t->spin_total = 0; if (t->state == T_RUNNABLE && t->bkind == B_SPIN) t->bkind = B_NONE; }
}

void wait_all_others() {
  Task *me = R->current;
  for (;;) {
    bool all = true;
    for (Task *t : R->tasks) if (t != me && t->state != T_FINISHED && t->state != T_DEAD) all = false;
    if (all) {
      for (Task *t : R->tasks) if (t != me) me->vc.join(t->vc);   // like a join (a killed task is ordered before whoever observes its death)
      return;
    }
    block(B_WAITALL, -1);
  }
}

extern void thread_exit_hook(Task *t);   // pthread shim: TLS destructors, joiners

static void finish_current(TaskState st) {
  Task *me = R->current;
  me->state = st;
  ev("finish", me->id);
  // wake root if waiting for all
  for (Task *t : R->tasks) if (t->state == T_BLOCKED && (t->bkind == B_WAITALL)) wake(t);
  run_scheduler_from(me);
  // not reached unless run over
  do_switch(me, nullptr);
  abort();
}

void exit_task() {
  Task *me = R->current;
  if (me->is_thread) thread_exit_hook(me);
  finish_current(T_FINISHED);
  abort();
}

void die_current() {
  finish_current(T_DEAD);
  abort();
}

void kill_task(Task *t) {
  if (t->state == T_FINISHED || t->state == T_DEAD) return;
  if (t == R->current && t->state != T_BLOCKED) infra_error("kill_task(current)");   // a blocked current task is only executing the scheduler
  t->state = T_DEAD;
  ev("killed", t->id);
  for (Task *o : R->tasks) if (o->state == T_BLOCKED && o->bkind == B_WAITALL) wake(o);
}

// ------------------------------------------------------------------ one run
namespace hb { void reset(); }
void shim_run_begin();
void shim_run_end();
namespace kern { void run_begin(); void run_end(); }

// ---------------------------------------------------------------- library statics
// The data sections of the library objects are renamed at build time (plib_data, plib_bss, plib_datarel), so that their extent
// is known here. Before every run they are put back to what they were when the process started: a run is a function of its
// seed alone, whatever static state the library (or a changed library: a cache, a once-flag) keeps across calls.
extern "C" {
extern char __start_plib_data[] __attribute__((weak)), __stop_plib_data[] __attribute__((weak));
extern char __start_plib_bss[] __attribute__((weak)), __stop_plib_bss[] __attribute__((weak));
extern char __start_plib_datarel[] __attribute__((weak)), __stop_plib_datarel[] __attribute__((weak));
}
#ifdef SIM_ASAN
// the sections contain ASan's red zones between the globals: copied by a loop the sanitizer does not look at (they are small here)
__attribute__((no_sanitize_address, noinline)) static void rawcopy(volatile char *d, const volatile char *s, size_t n) { for (size_t i = 0; i < n; i++) d[i] = s[i]; }
#else
static void rawcopy(char *d, const char *s, size_t n) { memcpy(d, s, n); }
#endif
static void restore_library_statics() {
  struct Sec { char *b, *e; char *snap; };
  static Sec secs[3] = {{__start_plib_data, __stop_plib_data, nullptr}, {__start_plib_bss, __stop_plib_bss, nullptr},
#ifdef SIM_ASAN
                        {nullptr, nullptr, nullptr}};       // flavour A: the relocated-data section also carries ASan's own global descriptors - left alone
#else
                        {__start_plib_datarel, __stop_plib_datarel, nullptr}};
#endif
  static bool have = false;
  for (Sec &x : secs) {
    if (!x.b || x.e <= x.b) continue;
    size_t n = (size_t)(x.e - x.b);
    if (!have) { x.snap = (char *)malloc(n); rawcopy(x.snap, x.b, n); }
    else rawcopy(x.b, x.snap, n);
  }
  have = true;
}

void run_one(const HarnessDef *h, uint64_t seed, const Decisions *replay, bool trace, Shared *shared, Run *out) {
  restore_library_statics();
  Run run;
  R = &run;
  run.h = h;
  run.rng = Rng(seed);
  run.seed = seed;
  run.replay = replay;
  run.trace = trace;
  run.shared = shared;
  run.log_hash = 0x1234567;
  run.order_hash = 0x7654321;
  run.now_ns = 0;
  hb::reset();
  alloc::run_begin();
  shim_run_begin();
  kern::run_begin();
  // per-run configuration (swarm) — draws through ST_GEN so that it is part of the replay
  run.cfg = Config();
  run.cfg.tier = g_tier;
  if (h->configure) h->configure(run.cfg, run.rng);
  if (!replay && run.cfg.policy == POL_PCT) {
    for (int k = 0; k < 8; k++) run.pct_points[k] = 1 + run.rng.below((uint32_t)run.cfg.pct_len);
  }
  run.now_ns = 1000000000ULL * (1 + choose(ST_GEN, 1000));   // random clock origin
  uint64_t origin_ns = run.now_ns;
  Task *root = spawn(0, h->root, false);
  (void)root;
  // enter
  do_switch(nullptr, run.tasks[0]);
  // back in main: run finished or aborted
  R->current = nullptr;
  if (!run.aborted) {
    bool all = true;
    for (Task *t : run.tasks) if (t->state != T_FINISHED && t->state != T_DEAD) all = false;
    if (!all && run.res.status == RS_OK) { run.res.status = RS_INCONCLUSIVE; run.res.msg = "run ended with unfinished tasks"; run.aborted = true; }
  }
  run.res.clean = !run.aborted && run.clean_end;
  run.res.steps = run.steps;
  run.res.log_hash = run.log_hash;
  run.res.order_hash = run.order_hash;
  run.res.sim_ns = run.now_ns - origin_ns;
  for (int i = 0; i < ST_MAX; i++) run.res.fired[i] = run.fired[i];
  kern::run_end();
  shim_run_end();
  alloc::run_end();
  for (Task *t : run.tasks) { stack_release(t->stack); }
  // tasks themselves are leaked on abort (their std::function may own captured state living on abandoned stacks)
  if (run.res.clean) for (Task *t : run.tasks) delete t;
  run.tasks.clear();
  R = nullptr;
  if (out) {
    out->res = run.res; out->eff = run.eff; out->desc = run.desc; out->probes = run.probes;
    out->trace_lines = run.trace_lines; out->cfg = run.cfg;
  }
}

void mark_clean_end() { if (R) R->clean_end = true; }
void set_pct_len(int n) { if (R) R->cfg.pct_len = n; }

}  // namespace sim
