// Deterministic simulator core for plibsys — public interface used by shims and harnesses.
// One OS thread per worker; tasks are cooperative fibers; every choice comes from the
// decision streams (seeded PRNG when generating, recorded lists when replaying).
#pragma once
#include <stdint.h>
#include <stddef.h>
#include <stdarg.h>
#include <string>
#include <vector>
#include <functional>
#include <map>

namespace sim {

constexpr int MAXT = 24;          // max tasks per run

// ---------------------------------------------------------------- decision streams
enum Stream : int {
  ST_GEN = 0,      // workload generation
  ST_SCHED,        // who runs next (0 = stay / lowest id)
  ST_WAKE,         // which waiter a signal wakes, which queue entry, ...
  ST_SPURIOUS,     // F2 spurious cond wake-up / extra waiter released
  ST_RWPREF,       // F4 native rwlock preference
  ST_STOREBUF,     // F5 store-buffer flush timing
  ST_KILL,         // F6 process kill
  ST_EINTR,        // F7
  ST_SHORT,        // F8 EAGAIN after poll / short transfer
  ST_NET,          // F9 network timing/loss/dup/reorder/reset
  ST_ALLOC,        // F10 allocation failure
  ST_SYSCALL,      // F11 system call failure
  ST_TIMER,        // F12 late timers
  ST_SIGNAL,       // signal storms in simulated time
  ST_MAX
};
extern const char *stream_names[ST_MAX];

struct Rng {
  uint64_t s;
  explicit Rng(uint64_t seed = 1) : s(seed) {}
  uint64_t next();                         // splitmix64
  uint32_t below(uint32_t n) { return n <= 1 ? 0 : (uint32_t)(next() % n); }
  double unit() { return (next() >> 11) * (1.0 / 9007199254740992.0); }
};
uint64_t splitmix(uint64_t a, uint64_t b);

// uniform choice in [0,n); recorded.  In replay: stream value modulo n, 0 when exhausted.
uint32_t choose(int stream, uint32_t n);
// Bernoulli with probability p (generation) ; recorded as 0/1.  Counts in fired[stream] when 1.
bool flip(int stream, double p);
// generation helpers (ST_GEN)
inline uint32_t gen(uint32_t n) { return choose(ST_GEN, n); }
inline uint32_t gen_range(uint32_t lo, uint32_t hi) { return lo + choose(ST_GEN, hi - lo + 1); }
inline bool gen_flip(double p) { return flip(ST_GEN, p); }

// ---------------------------------------------------------------- vector clocks
struct VC {
  uint32_t c[MAXT];
  void clear();
  void join(const VC &o);
  bool leq(const VC &o) const;
};

// ---------------------------------------------------------------- tasks
enum TaskState { T_RUNNABLE, T_BLOCKED, T_FINISHED, T_DEAD };
enum BlockKind {
  B_NONE = 0, B_MUTEX, B_COND, B_RWLOCK, B_JOIN, B_SEM, B_SOCK, B_TIMER, B_SPIN, B_WAITALL, B_BARRIER, B_HOLD
};

struct Task {
  int id = 0;
  int proc = 0;                 // simulated process
  TaskState state = T_RUNNABLE;
  BlockKind bkind = B_NONE;
  int bobj = -1;                // number of the object blocked on (diagnostics, never an address)
  bool has_timer = false;       // a timer event can wake it
  bool cancelled = false;       // set by harness at quiescence; blocking shims return EINTR-like
  VC vc;
  int saved_errno = 0;
  std::function<void()> entry;
  // fiber
  void *sp = nullptr;
  char *stack = nullptr;
  size_t stack_size = 0;
  void *asan_fake = nullptr;
  // API bracket state
  int api_depth = 0;
  const char *api = nullptr;
  bool api_nonblocking = false;
  bool parked_in_try = false;
  int api_obj = -1;
  uint64_t syscalls = 0, api_sys_base = 0;   // simulated system calls made by this task / at the start of its current bracket
  // simulated pthread state
  std::map<int, void *> tls;
  bool detached = false, joined = false, is_thread = false, started = false;
  bool lib_thread = false;      // created by the library through pthread_create (its proxy code runs outside every API bracket)
  bool timed_out = false;       // a timed wait ended by its deadline
  int native = -1;              // native thread id slot (pthread_t value - 1); slots of joined / finished detached threads are reused
  void *retval = nullptr;
  int prio = 0;                 // PCT priority
  bool yielded = false;         // asked for sched_yield: somebody else runs next if anybody can
  uint32_t passed_over = 0;     // consecutive scheduling points at which this task could run and was not chosen (starvation bound)
  // spin detection
  const void *spin_addr = nullptr;
  int spin_count = 0;
  int spin_total = 0;
  // scratch for harnesses
  int user = 0;
  void *userp = nullptr;
};

Task *cur();                            // current task or nullptr (main context)
Task *task(int id);
int ntasks();
Task *spawn(int proc, std::function<void()> fn, bool hb_from_cur = true);  // create runnable task
void yield_point(int kind = 0);         // scheduling point (no-op when no fiber is current)
void block(BlockKind k, int obj);       // current task leaves the enabled set; returns when woken+scheduled
void wake(Task *t);                     // blocked -> runnable
void wait_all_others();                 // root: block until every other task finished/dead
void kill_task(Task *t);                // abandon a task (process kill)
[[noreturn]] void exit_task();          // current task finishes and never returns
[[noreturn]] void die_current();        // current task is killed (process kill) and never returns
uint64_t now_seq();                     // global event sequence number
uint64_t steps();

// simulated clock / timers (ns)
uint64_t now_ns();
void add_timer(uint64_t at_ns, std::function<void()> fn);   // runs in scheduler context
void sleep_until(uint64_t at_ns);                           // blocks current on B_TIMER

// ---------------------------------------------------------------- run configuration
enum Policy { POL_RANDOM, POL_PCT, POL_RR };
struct Config {
  int tier = 0;                 // 0 quick, 1 thorough
  Policy policy = POL_RANDOM;
  double switch_p = 0.3;
  int pct_d = 2;
  int pct_len = 300;            // expected run length for PCT change points
  int rr_quantum = 3;
  double p[ST_MAX] = {0};       // fault probabilities per stream (0 = disabled)
  uint64_t step_cap = 200000;
  bool faults_enabled = true;
};
Config &cfg();
bool replaying();

// ---------------------------------------------------------------- event log, probes, violations
void ev(const char *what, int64_t a = 0, int64_t b = 0, int64_t c = 0);  // folded into log hash; kept when tracing
void order_ev(int obj, int op, int task);                                // folded into order hash (per-object op order)
void probe(const char *name);                                            // "rare state reached"
void fired(int stream);                                                  // count a fired fault
// report a violation for the running harness' property and abort the run. key = stable facts.
[[noreturn]] void violate(const char *cls, const char *key, const char *fmt, ...) __attribute__((format(printf, 3, 4)));
void violate_noabort(const char *cls, const char *key, const char *fmt, ...) __attribute__((format(printf, 3, 4)));
[[noreturn]] void infra_error(const char *fmt, ...) __attribute__((format(printf, 1, 2)));  // exit 2
[[noreturn]] void inconclusive(const char *why);                                            // abandon run, no verdict
bool run_aborted();

// API bracket: tags the task, records invoke/return with global sequence numbers
struct ApiScope {
  Task *t; const char *prev; bool prevnb; int prevobj;
  ApiScope(const char *api, int obj = -1, bool nonblocking = false);
  ~ApiScope();
};
// called by harness to describe the workload (goes to replay file / evidence samples)
void describe(const char *fmt, ...) __attribute__((format(printf, 1, 2)));

// hooks a harness may install for the run
struct Hooks {
  std::function<bool()> on_quiescence;   // empty enabled set, unfinished tasks: return true if handled (tasks woken/cancelled)
  bool completion_required = true;       // a deadlock / step-cap hit is a violation of the property
};
Hooks &hooks();

// ---------------------------------------------------------------- harness registry
struct HarnessDef {
  const char *name;
  const char *property;
  void (*root)();                        // body of the root task
  void (*configure)(Config &, Rng &);    // draw per-run configuration (swarm) — uses ST_GEN via gen()
};
void register_harness(const HarnessDef &h);
#define SIM_HARNESS(NAME, PROP, ROOT, CONFIGURE) \
  static struct Reg_##NAME { Reg_##NAME() { sim::register_harness({#NAME, PROP, ROOT, CONFIGURE}); } } reg_##NAME;

extern const char *g_variant;            // "T.c11.posix", ...
extern const bool g_flavour_tsan;        // true in flavour T

// ---------------------------------------------------------------- happens-before / race detector API (hb.cpp)
namespace hb {
void reset();
void acquire(VC &into, const VC &from);                 // into.join(from)
void release_to(VC &obj, Task *t);                      // obj = join(obj, t.vc); t.tick
void release_store(VC &obj, Task *t);                   // obj = t.vc; t.tick
void tick(Task *t);
// plain access by current task; reports race violation. canonical address used as key
void plain_read(const void *addr, size_t n, const char *what = nullptr);
void plain_write(const void *addr, size_t n, const char *what = nullptr);
void forget_range(const void *addr, size_t n);
// address canonicalisation hook (shared segments mapped twice)
extern uintptr_t (*canon)(uintptr_t);
// heap shadow (flavour T): freed-block detection
void heap_alloc(const void *p, size_t n);
void heap_free(const void *p, size_t n);
bool heap_is_freed(const void *p, size_t n);
// caller buffers with software red zones (flavour T; flavour A uses exact-size malloc and ASan)
void *guard_malloc(size_t n);
void guard_free(void *p);
}
#define SIM_READ(x) sim::hb::plain_read(&(x), sizeof(x), #x)
#define SIM_WRITE(x) sim::hb::plain_write(&(x), sizeof(x), #x)

// ---------------------------------------------------------------- allocator (alloc.cpp)
namespace alloc {
void install();                                         // p_mem_set_vtable
void run_begin(); void run_end();
size_t outstanding_count();
bool is_live(const void *p);                           // block currently allocated (exact start address)
uint64_t total_allocs();
std::string outstanding_desc(size_t max = 5);
struct Mark { uint64_t seq; };
Mark mark();                                            // blocks allocated after this mark ...
size_t outstanding_since(Mark m, std::string *desc = nullptr);
void set_fail_plan(int64_t kth, bool from_kth_on);      // C18: fail the k-th allocation after now (1-based); -1 = none
int64_t allocs_since_plan();
uint64_t failed_count();
void reclaim_process(int proc);                         // process kill: OS reclaims its blocks
extern bool fault_flip_enabled;                         // use ST_ALLOC flips
}

}  // namespace sim
