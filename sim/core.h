// Internal structures shared between core, shims and the driver (main.cpp).
#pragma once
#include "sim.h"
#include <queue>
#include <unordered_map>

namespace sim {

struct Decisions {
  std::vector<uint32_t> v[ST_MAX];
  size_t total() const { size_t n = 0; for (auto &x : v) n += x.size(); return n; }
};

enum RunStatus { RS_OK = 0, RS_VIOLATION = 1, RS_INCONCLUSIVE = 2 };

struct Result {
  RunStatus status = RS_OK;
  bool clean = false;            // process state is reusable after this run
  std::string cls, key, msg, api;
  uint64_t steps = 0, switches = 0, spin_blocks = 0;
  uint64_t log_hash = 0, order_hash = 0, sim_ns = 0;
  uint64_t fired[ST_MAX] = {0};
};

// written by a forked child so that the parent can classify a crash
struct Shared {
  volatile int started, finished, infra;
  char cur_api[96];
  char harness_note[160];
  char msg[512];
  // serialized result
  int status; int clean;
  char cls[64], key[160], rmsg[1024], api[96];
  uint64_t steps, switches, log_hash, order_hash, sim_ns;
  uint64_t fired[ST_MAX];
  char desc[8192];
  // effective decisions, streamed while the run proceeds (so that they survive a crash of the child)
  uint32_t overflow;
  uint32_t sn[ST_MAX];
  uint32_t sdec[ST_MAX][1 << 16];
};

struct TimerEv {
  uint64_t at, seq;
  std::function<void()> fn;
  bool operator<(const TimerEv &o) const { return at != o.at ? at > o.at : seq > o.seq; }
};
struct Run {
  const HarnessDef *h = nullptr;
  Rng rng{1};
  uint64_t seed = 0;
  const Decisions *replay = nullptr;
  size_t rpos[ST_MAX] = {0};
  Decisions eff;
  Config cfg;
  Hooks hooks;
  std::vector<Task *> tasks;
  Task *current = nullptr;
  void *main_sp = nullptr;
  void *main_fake = nullptr;
  int in_sim = 0;
  uint64_t seq = 0, steps = 0;
  uint64_t now_ns = 0;
  uint64_t log_hash = 0, order_hash = 0;
  uint64_t fired[ST_MAX] = {0};
  std::map<std::string, uint64_t> probes;
  std::string desc;
  bool trace = false;
  std::vector<std::string> trace_lines;
  Result res;
  bool aborted = false;
  bool clean_end = false;
  bool any_try_parked = false;
  const char *attr_api = nullptr;
  const char *trace_note = nullptr;
  int quiesce_calls = 0;
  Shared *shared = nullptr;
  // scheduling policy state
  uint64_t pct_points[8] = {0};
  int pct_low = 0;
  int rr_count = 0;
  // timers
  std::priority_queue<TimerEv> timers;
  uint64_t timer_seq = 0;
  std::map<int, uint64_t> sleep_gen;
};

extern Run *R;
extern int g_tier;

const HarnessDef *find_harness(const char *name);
std::vector<const HarnessDef *> all_harnesses();
void run_one(const HarnessDef *h, uint64_t seed, const Decisions *replay, bool trace, Shared *shared, Run *out);
void mark_clean_end();
void spin_block(const void *addr);
void spin_wake(const void *addr);

struct SimScope {           // simulator-internal section: instrumented callbacks become pass-through
  SimScope() { if (R) R->in_sim++; }
  ~SimScope() { if (R) R->in_sim--; }
};

}  // namespace sim
