# Build of the simulator binaries. Library sources always come from $(PLIBSYS_SRC) (default /repo),
# compiled unmodified with the defines of an offline cmake configure, then symbol-retargeted with objcopy.
PLIBSYS_SRC ?= /repo
BUILD ?= build
# always absolute: the generated dependency files name their targets by the path given here
override BUILD := $(abspath $(BUILD))
export PLIBSYS_SRC
export VERIF_BUILD := $(BUILD)

CC := gcc
CXX := g++

-include $(BUILD)/lib.mk

CFG_DEPS := $(PLIBSYS_SRC)/CMakeLists.txt $(PLIBSYS_SRC)/src/CMakeLists.txt $(wildcard $(PLIBSYS_SRC)/cmake/*.cmake) $(PLIBSYS_SRC)/src/plibsysconfig.h.in tools/gen_build.py

$(BUILD)/lib.mk: $(CFG_DEPS)
	@mkdir -p $(BUILD)
	python3 tools/gen_build.py

ifdef LIB_SRCS

DEFAULT_VARIANT_SRCS := patomic-c11.c pspinlock-c11.c prwlock-posix.c
COMMON_SRCS := $(filter-out $(DEFAULT_VARIANT_SRCS),$(LIB_SRCS))
ALL_VARIANT_SRCS := patomic-c11.c patomic-sync.c patomic-sim.c pspinlock-c11.c pspinlock-sync.c pspinlock-sim.c prwlock-posix.c prwlock-general.c

LIBFLAGS := -O2 -g -fPIC -fvisibility=hidden -Wno-error -w $(LIB_DEFS) $(LIB_INCS)
FLAGS_T := -fsanitize=thread,undefined --param tsan-distinguish-volatile=1 --param tsan-instrument-func-entry-exit=0 -fno-sanitize-recover=undefined
FLAGS_A := -fsanitize=address,undefined -fno-sanitize-recover=undefined

SIMFLAGS := -std=gnu++17 -O2 -g -Wall -Wextra -Wno-unused-parameter -Wno-missing-field-initializers $(LIB_INCS) -Isim

SIM_SRCS_COMMON := core.cpp fiber.cpp hb.cpp alloc.cpp pthread_shim.cpp kernel.cpp knet.cpp kextra.cpp main.cpp
SIM_SRCS_T := $(SIM_SRCS_COMMON) tsanrt.cpp
SIM_SRCS_A := $(SIM_SRCS_COMMON) notsan.cpp
HARNESS_SRCS := $(notdir $(wildcard harness/*.cpp))

OBJ_T := $(BUILD)/obj/T
OBJ_A := $(BUILD)/obj/A

define LIBRULE
$$(OBJ_$(1))/lib/%.o: $$(LIB_SRCDIR)/%.c tools/redefine.syms tools/redefine.T.syms $$(BUILD)/lib.mk
	@mkdir -p $$(dir $$@)
	@echo "  CC $$(notdir $$<) [$(1)]"; $$(CC) $$(LIBFLAGS) $$(FLAGS_$(1)) $$(if $$(filter pcryptohash-gost3411.c,$$(notdir $$<)),-fno-var-tracking-assignments) -MMD -MP -MF $$(@:.o=.d) -MT $$@ -c $$< -o $$(@:.o=.raw.o)
	@objcopy --redefine-syms=tools/redefine.syms $$(if $$(filter T,$(1)),--redefine-syms=tools/redefine.T.syms) --rename-section .data=plib_data --rename-section .bss=plib_bss --rename-section .data.rel.local=plib_datarel $$(@:.o=.raw.o) $$@
$$(OBJ_$(1))/sim/%.o: sim/%.cpp $$(BUILD)/lib.mk
	@mkdir -p $$(dir $$@)
	@echo "  CXX $$(notdir $$<) [$(1)]"; $$(CXX) $$(SIMFLAGS) -DSIM_FLAVOUR_$(1) $$(if $$(filter A,$(1)),-DSIM_ASAN) -MMD -MP -c $$< -o $$@
$$(OBJ_$(1))/harness/%.o: harness/%.cpp $$(BUILD)/lib.mk
	@mkdir -p $$(dir $$@)
	@echo "  CXX $$(notdir $$<) [$(1)]"; $$(CXX) $$(SIMFLAGS) -DSIM_FLAVOUR_$(1) $$(if $$(filter A,$(1)),-DSIM_ASAN) -MMD -MP -c $$< -o $$@
endef
$(eval $(call LIBRULE,T))
$(eval $(call LIBRULE,A))

# main.o is compiled per variant (it carries the variant name)
define BINRULE
# $(1)=flavour $(2)=atomic model $(3)=rwlock model
$$(BUILD)/obj/$(1)/main.$(2).$(3).o: sim/main.cpp sim/sim.h sim/core.h $$(BUILD)/lib.mk
	@mkdir -p $$(dir $$@)
	@echo "  CXX $$(notdir $$<) [$(1)]"; $$(CXX) $$(SIMFLAGS) -DSIM_FLAVOUR_$(1) $$(if $$(filter A,$(1)),-DSIM_ASAN) -DSIM_VARIANT='"$(1).$(2).$(3)"' -c $$< -o $$@
$$(BUILD)/bin/$(1).$(2).$(3): $$(addprefix $$(OBJ_$(1))/lib/,$$(COMMON_SRCS:.c=.o)) \
    $$(OBJ_$(1))/lib/patomic-$(2).o $$(OBJ_$(1))/lib/pspinlock-$(2).o $$(OBJ_$(1))/lib/prwlock-$(3).o \
    $$(addprefix $$(OBJ_$(1))/sim/,$$(filter-out main.o,$$(SIM_SRCS_$(1):.cpp=.o))) $$(BUILD)/obj/$(1)/main.$(2).$(3).o \
    $$(addprefix $$(OBJ_$(1))/harness/,$$(HARNESS_SRCS:.cpp=.o)) | $$(BUILD)/syms.$(1).ok $$(BUILD)/run/libvpprobe.so
	@mkdir -p $$(dir $$@)
	@echo "  LD $$@"; $$(CXX) -o $$@ $$^ $$(if $$(filter T,$(1)),-fsanitize=undefined,-fsanitize=address,undefined) -ldl -lrt -lm
endef
$(eval $(call BINRULE,T,c11,posix))
$(eval $(call BINRULE,T,sync,posix))
$(eval $(call BINRULE,T,sim,posix))
$(eval $(call BINRULE,T,c11,general))
$(eval $(call BINRULE,A,c11,posix))
$(eval $(call BINRULE,A,c11,general))

ALL_LIB_OBJS_T := $(addprefix $(OBJ_T)/lib/,$(COMMON_SRCS:.c=.o) $(ALL_VARIANT_SRCS:.c=.o))
ALL_LIB_OBJS_A := $(addprefix $(OBJ_A)/lib/,$(COMMON_SRCS:.c=.o) patomic-c11.o pspinlock-c11.o prwlock-posix.o prwlock-general.o)

$(BUILD)/syms.T.ok: $(ALL_LIB_OBJS_T) tools/check_syms.py tools/redefine.syms tools/allowed_externals.txt
	@python3 tools/check_syms.py $(ALL_LIB_OBJS_T) && touch $@
$(BUILD)/syms.A.ok: $(ALL_LIB_OBJS_A) tools/check_syms.py tools/redefine.syms tools/allowed_externals.txt
	@python3 tools/check_syms.py $(ALL_LIB_OBJS_A) && touch $@

BINS_T := $(BUILD)/bin/T.c11.posix $(BUILD)/bin/T.sync.posix $(BUILD)/bin/T.sim.posix $(BUILD)/bin/T.c11.general
BINS_A := $(BUILD)/bin/A.c11.posix $(BUILD)/bin/A.c11.general

all: $(BINS_T) $(BINS_A) $(BUILD)/run/libvpprobe.so

$(BUILD)/run/libvpprobe.so: sim/probe_module.c
	@mkdir -p $(dir $@)
	@echo "  CC probe_module.c"; $(CC) -shared -fPIC -O1 -o $@ $<
binsT: $(BINS_T)
binsA: $(BINS_A)

-include $(wildcard $(OBJ_T)/lib/*.d $(OBJ_A)/lib/*.d $(OBJ_T)/sim/*.d $(OBJ_A)/sim/*.d $(OBJ_T)/harness/*.d $(OBJ_A)/harness/*.d)

else
all binsT binsA: $(BUILD)/lib.mk
	$(MAKE) $@
endif

setup:
	$(MAKE) -j16 all
	python3 tools/check.py --selftest

clean:
	rm -rf $(BUILD)

.PHONY: all binsT binsA setup clean
.SECONDARY:
